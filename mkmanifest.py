#!/usr/bin/env python3
"""Regenerates /verif/MANIFEST.json from the table below (edit CLAIMED / notes, run, commit)."""
import json, subprocess

PROPS = [json.loads(l) for l in open('/verif/properties.jsonl')]

# property -> (technique, level text, level note, design ref)
CLAIMED = {
 "C14": ("contract-based deductive verification: WP/symbolic execution of the real Go functions -> SMT (z3/cvc5)",
         "Proof, for all inputs in the stated domain, of the per-function contracts of the exact primitives: triSign, "
         "multiplyUInt64 (128-bit product identity), productsAreEqual, isCollinear (== integer cross product is zero, "
         "outside the recorded F2 region), CrossProduct (sign/zero exact, value exact up to 2^53), getBounds/GetBounds64 "
         "(exact extremes), Area64/IsPositive64 where listed in evidence. PointInPolygon's full classification is not decided "
         "(see undecided_clauses in the evidence).",
         "Trusted: govc itself, the SMT solvers, go/types. float64 arithmetic is modelled over the reals; int->float64 conversion "
         "by the axioms exact-to-2^53/monotone/relative-error-2^-53; github.com/govalues/decimal by an assumed contract. "
         "Known finding F2 (triSign(1)==0) is carved out: the clause is proved on the complement and the witness is replayed on every run.",
         "DESIGN.md section 4, C14"),
}

CLAIMED["C15"] = ("contract-based deductive verification (WP -> SMT) of TrimCollinear64 and the collinearity predicate; bounded exhaustive stand-in for the global closed-path clauses",
  "Proof for all inputs (coordinates up to 2^29): every index expression is in range for every length including 0..2, all four loops terminate, every result vertex is an input vertex, "
  "an open path keeps both end points, a closed result has 0 or >= 3 vertices whenever the collinearity predicate is exact on the path's points; the predicate itself is proved equal to "
  "'integer cross product is zero' outside the recorded F2 region. The global closed-path clauses (sub-sequence, area unchanged, no collinear triple left, idempotence) are covered by a "
  "bounded exhaustive stand-in only (stated in evidence as bounded, not proved).",
  "Trusted: govc, SMT solvers, go/types. Known finding F2 (triSign(1)==0) carved out and replayed. Beyond the bound the closed-path clauses are undecided.",
  "DESIGN.md section 4, C15")

CLAIMED["C12"] = ("contract-based deductive verification: heap contracts (idle-state invariant) by WP -> SMT; frame / initialised-before-read / solution-replaced obligations by a syntactic effect analysis over the real AST; sampled bounded stand-in comparing a reused engine with a fresh one",
  "For all call histories (the obligations are statements about state, not about a run): (1) every public engine entry point (Execute, ExecuteOC, ExecutePolyTree on both engines, clipperBase.execute) "
  "re-establishes the idle state (no active edges, empty scan-line / intersection / output-record / horizontal lists) and constructors start in it; reset() re-initialises the per-run scratch fields; "
  "(2) in the call tree of every entry point the per-run fields succeeded, fillRule, clipType, currentBotY, currentLocMin, sel, usingPolyTree are written before they are read; (3) the pre-call contents "
  "of every solution argument are dead (truncated before first use); (4) no exported function writes memory reachable from a caller-supplied slice, no AddPaths variant retains one, and no function writes a package-level variable. "
  "Not decided: equality of results when the same paths are added in another order or split over several AddPaths calls (a sweep property).",
  "Trusted: govc (incl. its effect analysis: field-sensitive, flow-insensitive for aliases, callees by summary), SMT solvers, go/types. Callees without contract are havocked (everything their summary says they may write). "
  "User callbacks assumed not to write library state. Four defects found by these obligations were repaired (F9, F10, F11, F27: fix commits in /repo, recorded as fixed in known_findings.json).",
  "DESIGN.md section 4, C12")
CLAIMED["C18"] = ("contract-based verification reduced to frame conditions: per-function frame obligations (no global writes, no concurrency primitives, read-only inputs) decided by a syntactic effect analysis of every function in the package; bounded stand-in run under the Go race detector (12 goroutines on distinct objects with shared read-only inputs)",
  "If no call writes memory that another call can reach, every interleaving of independent calls is race-free and each call computes what it computes alone. Decided for all 340+ function bodies on every run: "
  "no function writes or takes the address of a package-level variable (transitively through callees); package-level variables are initialised by pure expressions and are not of a mutable reference kind; no go statement, "
  "channel, select, sync/atomic/unsafe/runtime use; exported functions only read caller-supplied slices. Interleavings themselves are not explored (this family cannot).",
  "Assumes the Go runtime and the imported packages (math, sort, slices, fmt, errors, govalues/decimal, x/exp/constraints) keep no racy shared state. Conservative: a correctly synchronised package-level cache would be reported (the one known source of a possible false alarm).",
  "DESIGN.md section 4, C18")
CLAIMED["C17"] = ("contract-based verification reduced to frame conditions (determinism: no hidden state, no nondeterministic source) plus SMT-checked comparator contracts; sampled bounded stand-in for the region-equality clauses (rewritings of the input, lattice symmetries)",
  "First sentence of the property only (bit-identical repeat calls): every function is free of package-level state, map iteration, clocks, random sources, environment access and address-as-integer conversions, so a call is a function of its arguments and receiver state; "
  "sort comparators are checked as contracts where listed in evidence. All region-equality clauses (permutation, rotation, reversal, subject/clip exchange, lattice symmetries) are relational properties of the sweep and are NOT decided (listed under undecided_clauses).",
  "Assumes sort.Slice / slices.SortFunc are deterministic functions of their input. Region-level clauses undecided.",
  "DESIGN.md section 4, C17")

CLAIMED["C16"] = ("contract-based deductive verification (WP -> SMT) of SimplifyPath64/D, getNext/getPrior and the perpendicular-distance leaf; lemmas for translation/scaling; bounded exhaustive stand-in for exit condition and termination of the cyclic scan",
  "Proof for all inputs: getNext/getPrior return the cyclically next/previous unflagged index (full functional contract, with termination); in SimplifyPath64/D every index is in range, every getNext/getPrior precondition holds "
  "(the current vertex is never flagged), paths shorter than 4 are returned as they are, every result vertex is an input vertex, an open path keeps both end points whenever epsilon^2 < MaxFloat64 (beyond that: known finding F28); "
  "the Paths variants work path by path; PerpendicDistFromLineSqr64 equals cross^2/|line|^2 with no int64 overflow on the 2^29 domain (F15 repaired) and that value is invariant under translation and scales by s^2 (lemmas). "
  "The exit condition (no retained vertex within epsilon), termination of the main loop and epsilon-0 area preservation are covered by a bounded exhaustive stand-in only.",
  "float64 arithmetic over the reals; int->float64 exact up to 2^53 (proved applicable at each conversion). Main-loop termination and the exit condition are undecided beyond the bound.",
  "DESIGN.md section 4, C16")

T_WP = "contract-based deductive verification: symbolic execution / weakest preconditions over the typed AST of the real functions, obligations discharged by z3/cvc5"
CLAIMED["C01"] = (T_WP + " (necessary-condition lemmas and list-surgery contracts); sampled bounded stand-in for the region statement",
  "The region statement itself is NOT decided by proof (it needs the sweep's global invariants); a sampled stand-in (labelled bounded, not counted as proved) checks it directly against an exact winding-number oracle on 48 000 (quick) / 2.4 million (thorough) small random operations plus the recorded witnesses, and found the engine defects F33-F36 (areaOP, doSplitOp, fixSelfIntersects, joins), all repaired: it now passes with no failure on three seeds and a finer grid. Proved for all inputs are the necessary conditions the anchored mechanisms must satisfy, in the property's own vocabulary: "
  "(1) isContributingClosed returns true exactly when membership in the requested boolean combination (fill rule applied to winding numbers) differs across the edge, for all 4 clip types x 4 fill rules x both path types x all winding values; "
  "(2) setWindCountForClosedPathEdge hands the winding number over correctly from the nearest edge of the same type (all five branches) and accumulates the other type's winding edge by edge; "
  "(3) intersectEdges transfers the stored winding counts so that they describe the regions after the two edges swap places (same type / other type, EvenOdd and non-EvenOdd); "
  "(4) the integer primitives on the 2^29 domain: CrossProduct / dotProduct64 sign-exact without overflow, isCollinear, getSegmentIntersectPt (parallel iff determinant zero, result inside the first segment's box), getDx and topX with rounded float arithmetic; "
  "(5) a crossing of two cold same-type edges starts an output ring exactly when the contribution rule holds for the updated edges; addNewIntersectNode keeps crossings that lie inside the scanbeam; insertLeftEdge never inserts between joined edges; AEL/SEL insertion, removal and swapping, ring joining and local maxima keep the links they must keep.",
  "A green run does not establish the region property; evidence lists the sweep functions that are in the mechanism but not under contract. float-as-real; heap model per struct field; callees without contract are havocked.",
  "DESIGN.md section 4, C01")
CLAIMED["C19"] = (T_WP + " (lemma level) plus wrapper contracts over abstract function symbols; the sampled region stand-in of C01 runs all four clip types on every input",
  "Proved: the boolean table used by the contribution rule satisfies the property's set identities pointwise (Union = disjoint union of Difference(S,C), Intersection, Difference(C,S); Xor = Union minus Intersection; "
  "Difference = subject minus Intersection; [U]+[I] = [s]+[c]) - so code that meets the contribution rule (C01, same obligation) cannot make the four results disagree where the sweep is otherwise right; "
  "UnionPaths64(s,f) == BooleanOpPaths64(Union,s,nil,f) and the four WithClip wrappers pass Union/Intersection/Difference/Xor respectively. The area inequalities are not decided.",
  "BooleanOpPaths64 is an abstract function symbol (determinism by the frame obligations of C17/C18). Area discrepancy bounds undecided.",
  "DESIGN.md section 4, C19")
CLAIMED["C09"] = (T_WP + " (lemma level); sampled bounded stand-in for the coverage clause",
  "Proved for all inputs: isContributingOpen is exactly the property's sentence (Intersection: inside clip; Union: outside both; Difference/Xor: outside clip, fill rule applied to the winding numbers); "
  "setWindCountForOpenPathEdge counts, edge by edge, exactly the closed subject edges into the subject winding and the clip edges into the clip winding (open subject edges contribute nothing). "
  "An open edge that leaves the clip region is detached from its output path on both sides (intersectEdges, open branch); startOpenPath's new ring. "
  "Coverage of the subject lines is not decided by proof: a sampled stand-in (labelled bounded) checks it on 36 000 (quick) / 1.2 million (thorough) small random operations: no failure except known finding F37 (an open path turning back along a horizontal line is not cut on the overlapping stretch), reported under its own sub-check.",
  "Lemma level only; the open/closed intersection branch and emission are listed as not under contract.",
  "DESIGN.md section 4, C09")
CLAIMED["C07"] = (T_WP + " with wrapper contracts over abstract function symbols (EUF + arrays); sampled differential stand-in: every floating-point entry point against its 64-bit counterpart on independently quantised input",
  "Proved for all inputs and all precisions: ScalePathDToPath64 quantises every coordinate to a nearest integer of x*scale, ScalePath64ToPathD multiplies by scale, the Paths variants work path by path; "
  "checkPrecision / NewClipperD / TrimCollinearD / MinkowskiSumD / MinkowskiDiffD / RectClipPathsD / RectClipLinesPathsD panic exactly when the precision is outside [-8,8]; "
  "TrimCollinearD, MinkowskiSumD/DiffD, RectClipPathsD, RectClipLinesPathsD equal unscale(1/10^p) o 64-bit operation o scale(10^p) (the 64-bit operations as abstract symbols); NewClipperD wires scale and 1/scale. "
  "Known findings: ScaleRectD truncates (F8), NewClipperD(0) means precision 2 (F17). Not under contract: BooleanOpPathsD / InflatePathsD / PolyTreeD composition.",
  "decimal library by assumed contract (exact New/Mul/Float64, Int64(0) = a nearest integer); math.Pow uninterpreted; RectClip64.Execute as a trusted abstract function of (rect, path-extractor, paths).",
  "DESIGN.md section 4, C07")
CLAIMED["C08"] = (T_WP + " for the quad construction; the union step is C01; sampled bounded stand-in for the swept-region clause (exact parallelogram membership)",
  "Proved for all patterns/paths with coordinates up to 2^27: minkowskiInternal returns exactly (len(path) - (closed?0:1)) * len(pattern) quads, each of them the parallelogram {tmp[g][h], tmp[i][h], tmp[i][j], tmp[g][j]} "
  "(or its reverse) for a path index i with predecessor g (cyclic iff closed) and a pattern index j with cyclic predecessor h, where tmp[i][j] = path[i] +/- pattern[j]; no index out of range, no negative capacity (F3 repaired), no overflow; "
  "ReversePath reverses; MinkowskiSum64/Diff64 == UnionPaths64(minkowskiInternal(..., true/false, isClosed), NonZero). The union itself and commutativity are not decided.",
  "The mathematical fact that the union of edge-pair parallelograms is the Minkowski sum is used but not machine-checked. Orientation normalisation: either orientation of a quad is accepted by the contract.",
  "DESIGN.md section 4, C08")
CLAIMED["C13"] = (T_WP + "; the advertised range is checked by re-verifying the leaves on the 2^61 domain; sampled bounded stand-in for region-level translation and scaling invariance",
  "Proved: translation invariance and s^2 scaling of the integer cross/dot products and of the perpendicular distance (lemmas); productsAreEqual/isCollinear exact up to magnitude 2^61 (F14 repaired: integer abs); "
  "CrossProduct sign-exact and overflow-free up to 2^30; getDx and topX under rounded float arithmetic, checkCastInt64 as specified. On the advertised 2^61 domain the overflow obligations of CrossProduct, dotProduct64 and getSegmentIntersectPt failed with concrete operands on the pinned tree (F13); "
  "after the repair (float64 products once a factor reaches 2^31, exact integer products below) they discharge, the integer branch with the help of a product-bound hint. Region-level invariance is not decided by proof: the sampled stand-in checks translation up to 2^52 and scaling up to 2^55 (0 failures after the repair; about 30% of the operations scaled by 2^35 failed before).",
  "Area64's accumulator (F16) and the exactness of the floating-point branch beyond 2^31 are outside the proof; float-as-real elsewhere.",
  "DESIGN.md section 4, C13")
CLAIMED["C03"] = (T_WP + ": safety obligations (index, slice, nil, division, make, panic) for every function in reach; zero-annotation sweep; sampled totality stand-in (panic capture, 5-second watchdog, Execute success) over adversarial arguments and out-of-range enum values",
  "No-panic proofs for all inputs (integer arithmetic wraps as in Go): 120 functions discharge every safety obligation with no precondition at all (sweep list in the contracts file), and the functions under functional contract "
  "(TrimCollinear64, SimplifyPath64/D, getNext/getPrior incl. termination, PointInPolygon, minkowskiInternal, scaling helpers, Area/Bounds, the rectangle-clip wrappers, engine entry points for the idle state) discharge theirs under their stated preconditions; "
  "checkPrecision-style panics happen exactly when documented. NOT decided: termination and nil-safety of the sweep's list walks, Execute's success flag, the rectangle clipper's state machine and the offset join constructors (listed as not under contract).",
  "Callees without contract are havocked. Termination is proved only where a decreases clause is listed.",
  "DESIGN.md section 4, C03")

CLAIMED["C02"] = (T_WP + " (emission step and ring surgery); sampled bounded stand-in for the winding-0/1 clause",
  "The canonical-form statement itself (winding 0/1, orientation, >= 3 vertices) is NOT decided. Proved for all inputs are the named emission mechanisms: buildPath rejects exactly the degenerate rings (nil, single node, two nodes when closed), "
  "never emits two consecutive equal vertices, and rejects a closed 3-vertex result exactly when it is a very small triangle; ptsReallyClose / isVerySmallTriangle / isValidClosedPath have exact specifications; "
  "buildPaths routes every output record to exactly one of the two solutions according to isOpen and skips records without points.",
  "Ring well-formedness (non-nil next/prev links) is an explicit assumed precondition (listed in evidence). cleanCollinear / fixSelfIntersects / orientation bookkeeping not under contract.",
  "DESIGN.md section 4, C02")
CLAIMED["C04"] = (T_WP + " (tree node API, owner recursion, split-ring owners); sampled bounded stand-in for the nesting clauses",
  "Proved for all inputs: PolyPathBase.AddChild creates a fresh node whose parent is the receiver and whose polygon is the argument, appends it exactly once and leaves the other children in place; Level() walks the parent links "
  "(exact for depth 0, 1, 2; step relation for every iteration); IsHole() is false for the root and for outer polygons and true for their direct children (the alternation the property describes); Clear/Count; "
  "recursiveCheckOwners never attaches a record that already has a tree node and only recurses into owners whose bounds are known to be non-empty (checkBounds' postcondition is trusted); processHorzJoins gives every split ring an owner. "
  "Owner correctness, containment and equality with the flat result are not decided by proof: a sampled stand-in (labelled bounded) compares tree and flat results and checks orientation/level parity and containment on 16 000 (quick) / 480 000 (thorough) operations with nested and random polygons. Without touching or sliver polygons it finds no failure; with them it fails in about 0.4% of the operations (known finding F38, upstream's vertex-count / bounding-box-midpoint ownership test), and 3 operations differ by a zero-area polygon (F39).",
  "Heap model per struct field; tree depth counter treated as a mathematical integer.",
  "DESIGN.md section 4, C04")
CLAIMED["C05"] = (T_WP + " (bookkeeping, join-geometry clauses, index safety of the join constructors); sampled bounded stand-in for the containment clauses",
  "Proved for all inputs: StripDuplicates returns the path without consecutive duplicates (and without a closing duplicate for closed paths), keeps first/last points; NewGroup stores exactly the stripped paths with the requested join/end type; "
  "ClipperOffset.AddPaths / NewClipperOffset wire their arguments; |delta| < 0.5 copies every group path to the solution one by one; the effective delta is +/-delta according to the detected orientation and the final union runs with the paired fill rule and reverse flag; "
  "getUnitNormal is a unit vector perpendicular to the segment on the right-hand side; buildNormals computes one normal per segment incl. the closing one; getPerpendic is within 0.5 of pt + delta*normal; "
  "doMiter / doBevel append exactly the vertices the join formulas prescribe; intersectPoint returns a point on both lines (incl. the vertical special cases).",
  "float-as-real; sqrt by axiom; callbacks pure. Both containment clauses, Round's arc tolerance and the negative-delta mirror statement are not decided.",
  "DESIGN.md section 4, C05")
CLAIMED["C10"] = (T_WP + " plus a bounded stand-in that carries known finding F12",
  "Proved: the shared pieces of C05 used by open paths (StripDuplicates for open paths keeps both end points, buildNormals, getUnitNormal, getPerpendic, doBevel end-cap formula with j == k, effective delta = |delta| for open end types, NewGroup open groups are never 'reversed'). "
  "The end-cap construction itself is broken on the current tree (known finding F12: no cap is ever built); a bounded exhaustive stand-in shows it and is recorded, not counted as proved.",
  "Known finding F12 is the substance of this property for 2-point strokes; containment clauses undecided.",
  "DESIGN.md section 4, C10")
CLAIMED["C06"] = (T_WP + " for the location / intersection primitives, the fast paths and the index safety of the path walk; bounded exhaustive stand-in for the region clause",
  "Proved for all inputs: getLocation's total specification (on the boundary iff not ok, which side, strictly inside); getSegmentIntersection reports a touching intersection only if the point lies on the rectangle edge segment and reports none when both end points are strictly on one side; "
  "paths whose vertices all lie inside the rectangle are returned unchanged and paths entirely on one outer side vanish (RectClip64.Execute, using the exact getBounds contract after the F1 repair); an empty rectangle gives an empty result; "
  "NewRectClip64 wires rect and rectPath; every index expression of executeInternal, getNextLocation, getIntersection, addCorner, addCornerLocation is in range (under the listed assumption that corner locations are sides). "
  "Bounded (exhaustive, labelled, not counted as proved): every output vertex within 1 unit of the rectangle; fast paths; the winding clause for every 3-4 vertex (thorough: 3-5 vertex, 30.5 million cases) polygon of a 5x5 grid against three rectangles. "
  "That stand-in found the port defects F30a-b (constant prevCrossLoc, wrong seed of checkEdges), which are repaired (fix: commits); it now passes with no failure, as does a sampled family of 5-10 vertex polygons. Known finding F32 (paths winding >= 2 times around the rectangle without meeting it are treated by even-odd containment) is carried by the enclosing-winding sub-check.",
  "The winding clause itself is decided only up to the bound. checkEdges / tidyEdgePair (the edge post-pass) are not under contract. 'sideLoc' of corner locations is assumed (follows from a completeness argument about getIntersection that is not proved).",
  "DESIGN.md section 4, C06 and section 10.3")
CLAIMED["C11"] = (T_WP + " for the shared primitives and the line walk's index safety; bounded exhaustive stand-in for the coverage clauses",
  "Proved: the primitives shared with C06 (getLocation, getSegmentIntersection, getIntersection, getNextLocation), NewRectClip64 incl. the line path extractor being passed on, wrapper RectClipLinesPaths64 empty cases and its composition with RectClipLines64.Execute, "
  "every index expression of executeInternalPath64 in range for every open path (this obligation is what the F6a repair restores), RectClipLines64.Execute panic-free. "
  "Bounded (exhaustive over 2-3 point, thorough 2-4 point, lines on a grid against three rectangles; labelled, not counted as proved): output vertices within 1 unit of the rectangle and of the input line, two-point segments kept, lines never closed up, "
  "and coverage (eighth-points of every input segment more than 2 units from the rectangle boundary are covered exactly when inside). The stand-in found F6a-c (RectClipLines64 ran the polygon clipper; two-point pieces dropped; look-ahead index panic), all repaired.",
  "Coverage and order of the output are decided only up to the bound.",
  "DESIGN.md section 4, C11 and section 10.3")


# sentences appended to the level text after the second build phase (DESIGN.md section 10.7)
EXT = {
 "C01": " Second build phase: the sweep's drivers are under contract as well - processIntersectList (crossings processed bottom-up by the modelled sort comparator, only neighbouring edges crossed, joins at a crossing need the crossing on the neighbour's line), buildIntersectList (only out-of-order pairs recorded), insertLocalMinimaIntoAEL (bound directions, left/right choice, winding inheritance), doHorizontal (span limit, advance), doMaxima / updateEdgeIntoAEL / isValidAelOrder (verified, no longer trusted), addPathsToVertexList (turn flags), executeInternal, areaTriangle, segsIntersect, and exact specifications of the small predicates.",
 "C02": " Second build phase: cleanCollinear (only redundant vertices leave a ring; a vertex the scan passes differs from both neighbours), processHorzJoins weld clause, convertHorzSegsToJoins / updateHorzSegment / horzSegSort / split / trimHorz, joins at a crossing, executeInternal's horizontal-segment lifetime.",
 "C04": " Second build phase: checkSplitOwner's visited-set recursion contract (every live listed split is searched, including the splits of a newly visited split; never its own owner), addLocalMaxPoly's tree-mode owner clauses, buildTree (open records never enter the tree: defect F45 found and repaired), exact Rect64 / NewRect64Invalid / getRealOutRec / isValidOwner / setOwner / getPrevHotEdge specifications. Round 10: the tree entry points switch the engine to tree mode before the sweep and fill the caller's tree (mode variants, call-anchored); the tree and open-path arguments are replaced, not appended to (frame rule also listed here); getBounds listed here.",
 "C05": " Second build phase: GetLowestPathInfo always finds a lowest path when some path has area (independent of the sign of the coordinates); a single point becomes the square of half-width ceil(delta). Round 10: GetLowestPathInfo's chosen path owns the lowest-then-leftmost vertex of all paths with area, whatever the order of the paths.",
 "C06": " Second build phase: getSegmentIntersection end-point clauses (an end point on the line of a rectangle edge is a hit exactly when it lies on the edge), isClockwise, path1ContainsPath2, getPathRectClip, exact specifications of the edge-set / heading / overlap helpers; the 2^61 variants of CrossProduct and getSegmentIntersectPt also serve this property. Round 10: getNextLocation has its full functional contract (only vertices beyond the side being left are skipped; opposite side tested first, then the two neighbours; strict tests from inside); addCorner / addCornerLocation add exactly the corner between the two sides.",
 "C07": " Second build phase: the boolean D path is wired by local triples around the engine calls - BooleanOpPathsD / BooleanOpPolyTreeD build the engine for the requested precision (default 2) and add subject / clip as closed Subject / Clip paths; clipperD.AddPaths hands the integer engine exactly ScalePathsDToPaths64(paths, scale); clipperD.ExecuteOC divides every result path by the scale. Round 10: RectClipPathD / RectClipLinesPathD equal the paths variants at the default precision; ExecuteWithScaleFunc passes every path to the caller's function at the inverse scale (call anchors on callbacks); ExecutePolyTreeD sets the tree's scale and divides open paths by it; the inflate stand-in also covers explicit arc tolerance and miter limit (bounded).",
 "C09": " Second build phase: intersectEdges~opencross (an open path is cut only at a closed edge that bounds a filled region under the fill rule; outside Union only at clip edges), buildTree keeps open records out of the tree (F45 repaired), addPathsToVertexList's open flags, clearSolutionOnly / reset keep hasOpenPaths. Round 10: a contributing open end starts its output path at the minimum whether or not its first edge is horizontal (insertLocalMinimaIntoAEL); doMaxima resumes the scanbeam walk right behind the edge that stood left of the removed pair on entry; the open solution argument is replaced, not appended to (frame rule also listed here).",
 "C10": " Second build phase: single-point square of half-width ceil(delta) (loop step clause of doGroupOffset).",
 "C11": " Second build phase: the line walk starts at the second vertex after the boundary look-ahead (entry clause), getSegmentIntersection end-point clauses, getPathRectClipLine emits every ring node once in ring order.",
 "C12": " Second build phase: clearSolutionOnly / reset keep everything that was added and configured; reset sorts the minima bottom-up; a solution argument is never carved out of another caller-supplied slice (alias rule); AddPaths wrappers pass paths, type and flag unchanged; addReuseableData. Round 10: clipperBase.execute always clears tree mode before the sweep, the tree entry points always set it; GetLowestPathInfo does not depend on the order of the paths in a group (lowest-then-leftmost vertex rule).",
 "C13": " Second build phase: isClockwise overflow-free up to 2^61; GetLowestPathInfo independent of the sign of the coordinates; PerpendicDistFromLineSqr64 in rounded arithmetic.",
 "C14": " Second build phase: PointInPolygon's IsOn soundness is now proved for all polygons (at each of the three IsOn returns the point lies on the polygon edge being examined), with the scan invariants; exact specifications of the Rect64 / Point64 / absInt helpers; trimCollinear64Pass's step clauses also serve this property.",
 "C15": " Second build phase: multiplyUInt64's 128-bit identity also serves this property.",
 "C16": " Second build phase: PerpendicDistFromLineSqr64 in rounded float arithmetic (a point on the line gets exactly zero, a point off the line a positive value, on the whole 2^29 domain): defect F44 found and repaired.",
 "C17": " Second build phase: every contract of the sweep listed under C01 is also checked here (a change that alters the region for one spelling of the input alters a per-function clause); reset's and processIntersectList's sort orders are modelled by their comparators.",
 "C19": " Second build phase: the wiring of BooleanOpPaths64 / BooleanOpPolyTree64 / BooleanOpPathsD / BooleanOpPolyTreeD (subject and clip sets, path types, requested operation) by local triples around the engine calls; every contract of the sweep listed under C01 is also checked here.",
}

NOT_APPLICABLE = {
}

def main():
    checks = []
    na = []
    for p in PROPS:
        pid = p["id"]
        if pid in CLAIMED:
            tech, text, note, ref = CLAIMED[pid]
            text = text + EXT.get(pid, "")
            checks.append({
                "property_id": pid,
                "quick_cmd": f"/verif/check {pid} quick",
                "thorough_cmd": f"/verif/check {pid} thorough",
                "evidence_file": f"/verif/evidence/{pid}.json",
                "replay_cmd_template": "/verif/bin/govc replay {path}",
                "engine": "govc",
                "level_claimed": {"category": "proof", "text": text, "design_ref": ref},
                "level_note": note,
                "technique": tech,
            })
        else:
            na.append({"property_id": pid, "reason": NOT_APPLICABLE.get(pid, "not yet claimed: contracts for this property are still being written (DESIGN.md section 4 has the plan)")})
    hooks_commits = subprocess.run(["git", "-C", "/repo", "log", "--format=%H %s", "--", "contracts_verif.go"], capture_output=True, text=True).stdout.strip().split("\n")
    m = {
        "version": 1,
        "setup_cmd": "cd /verif && ./setup.sh",
        "hooks": {
            "guard": "verif",
            "enable": "-tags verif: the only hook is /repo/contracts_verif.go, a comment-only file (//@ contract lines) read by govc; the compiler never sees it without the tag and it declares nothing with it",
            "baseline_off_cmd": "cd /repo && GOFLAGS=-mod=mod GOPROXY=off go test -json -vet=off -count=1 ./...",
            "source_commits": [c.split(" ")[0] for c in hooks_commits if c],
            "add_only": True,
        },
        "engines": [{
            "name": "govc", "path": "/verif/govc",
            "serves_properties": sorted(CLAIMED.keys()),
            "kind_free_text": "contract-based deductive verifier for Go written for this task: loads /repo's working tree (go/packages), reads Gobra-style //@ contracts from contracts_verif.go, "
                              "symbolically executes the typed AST of each function under contract (loops by invariant, calls by contract or in-place expansion of contract-less loop-free helpers), "
                              "emits one SMT-LIB obligation per postcondition/invariant/safety condition, races z3 5.1 / cvc5 1.0 / z3 4.8, replays counterexamples on the real code via go test -overlay; "
                              "frame/ownership obligations by a syntactic effect analysis"}],
        "checks": checks,
        "notes": "Every check is clause-level: evidence lists decided_clauses (proved for all inputs), bounded stand-ins (never counted as proved) and undecided_clauses (outside this technique). "
                 "A green run means every generated obligation was discharged on the current tree; it never means the undecided clauses hold.",
        "not_applicable": na,
    }
    json.dump(m, open('/verif/MANIFEST.json', 'w'), indent=1)
    print("claimed:", sorted(CLAIMED.keys()), "n/a:", len(na))

main()
