#!/bin/sh
# runs every registered quick check on the current tree (used before committing evidence)
cd /verif
rc=0
for p in C01 C02 C03 C04 C05 C06 C07 C08 C09 C10 C11 C12 C13 C14 C15 C16 C17 C18 C19; do
  out=$(VERIF_TIMING=1 ./check $p ${1:-quick} 2>&1)
  e=$?
  echo "$out" | grep "^SLOW\|^VIOL\|^property" | cut -c1-180
  [ $e -ne 0 ] && rc=1
done
exit $rc
