//go:build verif

// prop: C04
// tier: quick
// name: PolyTree.zero-area-polygons PolyTree.same-polygons PolyTree.hole-iff-negative PolyTree.nesting PolyTree.touching-or-sliver-polygons
// what: (same-polygons) the polygons stored in the tree of BooleanOpPolyTree64 are, as a multiset and up to the starting vertex, the closed paths of BooleanOpPaths64 for the same input; (zero-area-polygons) cases in which the two results differ only by polygons of zero area are reported here: known finding F39; (hole-iff-negative) a node reports IsHole() exactly when its polygon has negative area, and levels alternate; (nesting) every vertex of a node's polygon that is more than 2 units from the parent's edges is inside the parent's polygon, such a vertex is inside no sibling, and no other polygon of the tree lies between a node and its parent (the parent is the innermost container); (touching-or-sliver-polygons) failures of the last two clauses in which the offending polygon touches another polygon of the solution (a vertex of one within 2 units of an edge of the other) or is a sliver (twice its area is at most twice its perimeter, i.e. its mean width is at most 2 units) are reported here: known finding F38
// bound: 2000 (quick) / 60000 (thorough) pseudo-random inputs (nested jittered squares around random centres mixed with random polygons of 3-6 vertices on the grid {0,4,..,60}^2, seeded by VERIF_SEED) x 4 clip types x EvenOdd / NonZero
// sampled: PolyTree.zero-area-polygons PolyTree.same-polygons PolyTree.hole-iff-negative PolyTree.nesting PolyTree.touching-or-sliver-polygons

package go_clipper2

import (
	"fmt"
	"math"
	"math/rand"
	"os"
	"sort"
	"strconv"
	"testing"
)

func vtCanon(p Path64) string {
	if len(p) == 0 {
		return "[]"
	}
	k := 0
	for i := range p {
		if p[i].X < p[k].X || (p[i].X == p[k].X && p[i].Y < p[k].Y) {
			k = i
		}
	}
	q := append(append(Path64{}, p[k:]...), p[:k]...)
	return fmt.Sprint(q)
}

func vtNodes(n *PolyPathBase, out *[]*PolyPathBase) {
	for _, c := range n.GetChildren() {
		*out = append(*out, c)
		vtNodes(c, out)
	}
}

// all vertices of a that are more than 2 units from b's edges are inside b (and there is one)
func vtInside(a, b Path64) (decided bool, inside bool) {
	inside = true
	for _, v := range a {
		if !vcFarFromAll(v, Paths64{b}) {
			continue
		}
		decided = true
		if vcWinding(v, b) == 0 {
			inside = false
		}
	}
	return
}

// vtTouches: some vertex of a is within 2 units of an edge of b, or the other way round
func vtTouches(a, b Path64) bool {
	for _, v := range a {
		if !vcFarFromAll(v, Paths64{b}) {
			return true
		}
	}
	for _, v := range b {
		if !vcFarFromAll(v, Paths64{a}) {
			return true
		}
	}
	return false
}

// vtSliver: mean width (2*area/perimeter) at most 2 units
func vtSliver(p Path64) bool {
	a := Area64(p)
	if a < 0 {
		a = -a
	}
	per := 0.0
	for i := range p {
		q := p[(i+1)%len(p)]
		per += math.Hypot(float64(q.X-p[i].X), float64(q.Y-p[i].Y))
	}
	return 2*a <= 2*per
}

func TestVerifBoundedPolyTree(t *testing.T) {
	n := 2000
	if os.Getenv("VERIF_TIER") == "thorough" {
		n = 60000
	}
	seed, _ := strconv.Atoi(os.Getenv("VERIF_SEED"))
	rng := rand.New(rand.NewSource(int64(seed) + 404))
	cases := 0
	fails := map[string]int{}
	report := func(which string, ct ClipType, fr FillRule, subj, clip Paths64, why string) {
		fails[which]++
		if fails[which] <= 3 {
			fmt.Printf("VERIF-BOUNDED-FAIL PolyTree.%s cliptype %v fillrule %v subject %v clip %v: %s\n", which, ct, fr, subj, clip, why)
		}
	}
	gen := func() Paths64 {
		var pp Paths64
		if rng.Intn(3) > 0 {
			cx, cy := int64(16+4*rng.Intn(8)), int64(16+4*rng.Intn(8))
			for r := int64(4 * (1 + rng.Intn(2))); r <= 28 && len(pp) < 5; r += int64(4 * (1 + rng.Intn(2))) {
				sq := Path64{{cx - r, cy - r}, {cx + r, cy - r}, {cx + r, cy + r}, {cx - r, cy + r}}
				if rng.Intn(2) == 0 {
					sq = ReversePath(sq)
				}
				pp = append(pp, sq)
			}
		}
		for k := rng.Intn(3); k > 0; k-- {
			p := make(Path64, 3+rng.Intn(4))
			for i := range p {
				p[i] = Point64{int64(rng.Intn(16)) * 4, int64(rng.Intn(16)) * 4}
			}
			pp = append(pp, p)
		}
		if len(pp) == 0 {
			pp = append(pp, Path64{{0, 0}, {40, 0}, {20, 40}})
		}
		return pp
	}
	for it := -1; it < n; it++ {
		subj := gen()
		var clip Paths64
		if rng.Intn(2) == 0 {
			clip = gen()
		}
		if it == -1 {
			// directed witness of F39 (a zero-area polygon in the flat result only)
			subj = Paths64{{{0, 0}, {40, 0}, {20, 40}}}
			clip = Paths64{{{16, 24}, {24, 24}, {24, 32}, {16, 32}}, {{8, 16}, {32, 16}, {32, 40}, {8, 40}}, {{0, 48}, {40, 48}, {40, 8}, {0, 8}}, {{-4, 4}, {44, 4}, {44, 52}, {-4, 52}}, {{-8, 0}, {48, 0}, {48, 56}, {-8, 56}}, {{28, 48}, {8, 44}, {4, 8}, {4, 40}, {52, 60}}, {{40, 4}, {8, 24}, {16, 0}, {40, 44}, {32, 44}, {16, 48}}}
		}
		for _, ct := range []ClipType{Intersection, Union, Difference, Xor} {
			for _, fr := range []FillRule{EvenOdd, NonZero} {
				cases++
				flat := BooleanOpPaths64(ct, subj, clip, fr)
				tree := BooleanOpPolyTree64(ct, subj, clip, fr)
				var nodes []*PolyPathBase
				vtNodes(tree.PolyPathBase, &nodes)
				var a, b []string
				for _, p := range flat {
					a = append(a, vtCanon(p))
				}
				for _, nd := range nodes {
					b = append(b, vtCanon(nd.Polygon()))
				}
				sort.Strings(a)
				sort.Strings(b)
				if fmt.Sprint(a) != fmt.Sprint(b) {
					cnt := map[string]int{}
					for _, x := range a {
						cnt[x]++
					}
					for _, x := range b {
						cnt[x]--
					}
					onlyFlat := true
					for _, p := range flat {
						if cnt[vtCanon(p)] != 0 && Area64(p) != 0 {
							onlyFlat = false
						}
					}
					for _, nd := range nodes {
						if cnt[vtCanon(nd.Polygon())] != 0 && Area64(nd.Polygon()) != 0 {
							onlyFlat = false
						}
					}
					if onlyFlat {
						report("zero-area-polygons", ct, fr, subj, clip, fmt.Sprintf("flat %v tree %v", a, b))
					} else {
						report("same-polygons", ct, fr, subj, clip, fmt.Sprintf("flat %v tree %v", a, b))
					}
					continue
				}
				for _, nd := range nodes {
					neg := Area64(nd.Polygon()) < 0
					if nd.IsHole() != neg || (nd.Level()%2 == 0) != neg {
						which := "hole-iff-negative"
						if vtSliver(nd.Polygon()) {
							which = "touching-or-sliver-polygons"
						}
						for _, q := range nodes {
							if q != nd && vtTouches(nd.Polygon(), q.Polygon()) {
								which = "touching-or-sliver-polygons"
							}
						}
						report(which, ct, fr, subj, clip, fmt.Sprintf("polygon %v at level %d: IsHole=%v area=%v", nd.Polygon(), nd.Level(), nd.IsHole(), Area64(nd.Polygon())))
						break
					}
				}
				bad := ""
				var offender *PolyPathBase
				for _, nd := range nodes {
					par := nd.parent
					if par != nil && par.parent != nil {
						if dec, in := vtInside(nd.Polygon(), par.Polygon()); dec && !in {
							bad = fmt.Sprintf("polygon %v is not inside its parent %v", nd.Polygon(), par.Polygon())
							offender = nd
						}
					}
					for _, sib := range par.GetChildren() {
						if sib == nd {
							continue
						}
						if dec, in := vtInside(nd.Polygon(), sib.Polygon()); dec && in {
							bad = fmt.Sprintf("polygon %v lies inside its sibling %v", nd.Polygon(), sib.Polygon())
							offender = nd
						}
					}
					// innermost container: no other node q with nd inside q and q inside-or-equal-level below par
					for _, q := range nodes {
						if q == nd || q == par || q.parent == nd.parent {
							continue
						}
						d1, in1 := vtInside(nd.Polygon(), q.Polygon())
						if !d1 || !in1 {
							continue
						}
						// q contains nd: q must be an ancestor of nd
						anc := false
						for x := nd.parent; x != nil; x = x.parent {
							if x == q {
								anc = true
							}
						}
						if !anc {
							bad = fmt.Sprintf("polygon %v (level %d) lies inside %v (level %d), which is not one of its ancestors", nd.Polygon(), nd.Level(), q.Polygon(), q.Level())
							offender = nd
						}
					}
				}
				if bad != "" {
					which := "nesting"
					if vtSliver(offender.Polygon()) {
						which = "touching-or-sliver-polygons"
					}
					for _, q := range nodes {
						if q != offender && vtTouches(offender.Polygon(), q.Polygon()) {
							which = "touching-or-sliver-polygons"
						}
					}
					report(which, ct, fr, subj, clip, bad)
				}
			}
		}
	}
	for _, w := range []string{"zero-area-polygons", "same-polygons", "hole-iff-negative", "nesting", "touching-or-sliver-polygons"} {
		fmt.Printf("VERIF-BOUNDED PolyTree.%s cases=%d failures=%d\n", w, cases, fails[w])
	}
}
