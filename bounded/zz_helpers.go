//go:build verif

// prop: ALL
// what: exact integer oracles shared by the bounded stand-ins (winding number, distance tests, fill rules)

package go_clipper2

import "fmt"

func vcWinding(pt Point64, poly Path64) int {
	w := 0
	n := len(poly)
	for i := 0; i < n; i++ {
		a, b := poly[i], poly[(i+1)%n]
		if a.Y <= pt.Y {
			if b.Y > pt.Y && (b.X-a.X)*(pt.Y-a.Y)-(pt.X-a.X)*(b.Y-a.Y) > 0 {
				w++
			}
		} else if b.Y <= pt.Y && (b.X-a.X)*(pt.Y-a.Y)-(pt.X-a.X)*(b.Y-a.Y) < 0 {
			w--
		}
	}
	return w
}

func vcFar(pt, a, b Point64) bool {
	dx, dy := b.X-a.X, b.Y-a.Y
	px, py := pt.X-a.X, pt.Y-a.Y
	l2 := dx*dx + dy*dy
	if l2 == 0 {
		return px*px+py*py > 4
	}
	t := px*dx + py*dy
	if t <= 0 {
		return px*px+py*py > 4
	}
	if t >= l2 {
		qx, qy := pt.X-b.X, pt.Y-b.Y
		return qx*qx+qy*qy > 4
	}
	cr := px*dy - py*dx
	return cr*cr > 4*l2
}

func vcFill(fr FillRule, w int) bool {
	switch fr {
	case EvenOdd:
		return w%2 != 0
	case NonZero:
		return w != 0
	case Positive:
		return w > 0
	}
	return w < 0
}

func vcOp(ct ClipType, s, c bool) bool {
	switch ct {
	case Intersection:
		return s && c
	case Union:
		return s || c
	case Difference:
		return s && !c
	}
	return s != c
}

func vcFarFromAll(pt Point64, pp Paths64) bool {
	for _, p := range pp {
		for i := range p {
			if !vcFar(pt, p[i], p[(i+1)%len(p)]) {
				return false
			}
		}
	}
	return true
}

func vcWindAll(pt Point64, pp Paths64) int {
	w := 0
	for _, p := range pp {
		w += vcWinding(pt, p)
	}
	return w
}

// vcBool runs BooleanOpPaths64 and turns a panic into a reported failure instead of aborting the run
func vcBool(ct ClipType, subj, clip Paths64, fr FillRule) (res Paths64, panicked string) {
	defer func() {
		if r := recover(); r != nil {
			panicked = fmt.Sprint("panic: ", r)
		}
	}()
	return BooleanOpPaths64(ct, subj, clip, fr), ""
}
