//go:build verif

// prop: C09
// tier: quick
// name: OpenPaths.coverage OpenPaths.coverage-horizontal-spikes OpenPaths.on-subject-lines OpenPaths.closed-solution-unaffected
// what: (coverage) the eighth-points of every open subject segment that are more than 2 units from every closed input edge and more than 3 units from every other open subject segment that does not pass through them are covered by an open solution segment (foot between its end points, within 1 unit per coordinate of its line) exactly when they are inside the clip region (Intersection), outside it (Difference), outside both closed regions (Union); (coverage-horizontal-spikes) the same clause for inputs in which an open path runs along a horizontal line and turns back on it (reported separately: known finding F37); (on-subject-lines) every open solution vertex lies within 1 unit per coordinate of an open subject segment; (closed-solution-unaffected) the closed solution equals the one computed without the open paths
// bound: 3000 (quick) / 100000 (thorough) pseudo-random inputs (1-2 open polylines of 2-5 points, 1-2 closed clip polygons and sometimes a closed subject polygon of 3-6 vertices, on the grid {0,8,..,40}^2, seeded by VERIF_SEED) x Intersection, Difference, Union x 4 fill rules
// sampled: OpenPaths.coverage OpenPaths.coverage-horizontal-spikes OpenPaths.on-subject-lines OpenPaths.closed-solution-unaffected

package go_clipper2

import (
	"fmt"
	"math/rand"
	"os"
	"strconv"
	"testing"
)

func voNear(pt, a, b Point64) bool {
	dx, dy := b.X-a.X, b.Y-a.Y
	px, py := pt.X-a.X, pt.Y-a.Y
	l2 := dx*dx + dy*dy
	if l2 == 0 {
		return px*px+py*py <= 2
	}
	t := px*dx + py*dy
	if t <= 0 {
		return px*px+py*py <= 2
	}
	if t >= l2 {
		qx, qy := pt.X-b.X, pt.Y-b.Y
		return qx*qx+qy*qy <= 2
	}
	cr := px*dy - py*dx
	return cr*cr <= 2*l2
}

// voCovers: the foot of pt on the line through a and b lies between a and b, and pt is within 1 unit
// per coordinate of that line (a sample more than 2 units from the region boundary is at least half a
// unit inside or outside a piece whose end vertices are within 1 unit of the exact crossing)
func voCovers(pt, a, b Point64) bool {
	dx, dy := b.X-a.X, b.Y-a.Y
	px, py := pt.X-a.X, pt.Y-a.Y
	l2 := dx*dx + dy*dy
	if l2 == 0 {
		return false
	}
	t := px*dx + py*dy
	if t < 0 || t > l2 {
		return false
	}
	cr := px*dy - py*dx
	return cr*cr <= 2*l2
}

// voOnSeg: pt lies exactly on segment ab
func voOnSeg(pt, a, b Point64) bool {
	if (b.X-a.X)*(pt.Y-a.Y)-(b.Y-a.Y)*(pt.X-a.X) != 0 {
		return false
	}
	return min(a.X, b.X) <= pt.X && pt.X <= max(a.X, b.X) && min(a.Y, b.Y) <= pt.Y && pt.Y <= max(a.Y, b.Y)
}

// voFar3: pt is more than 3 units from segment ab
func voFar3(pt, a, b Point64) bool {
	dx, dy := b.X-a.X, b.Y-a.Y
	px, py := pt.X-a.X, pt.Y-a.Y
	l2 := dx*dx + dy*dy
	t := px*dx + py*dy
	if l2 == 0 || t <= 0 {
		return px*px+py*py > 9
	}
	if t >= l2 {
		qx, qy := pt.X-b.X, pt.Y-b.Y
		return qx*qx+qy*qy > 9
	}
	cr := px*dy - py*dx
	return cr*cr > 9*l2
}

func TestVerifBoundedOpenPaths(t *testing.T) {
	n := 3000
	if os.Getenv("VERIF_TIER") == "thorough" {
		n = 100000
	}
	seed, _ := strconv.Atoi(os.Getenv("VERIF_SEED"))
	rng := rand.New(rand.NewSource(int64(seed) + 909))
	cases := 0
	fails := map[string]int{}
	report := func(which string, ct ClipType, fr FillRule, open, subj, clip, solOpen Paths64, why string) {
		fails[which]++
		if fails[which] <= 3 {
			fmt.Printf("VERIF-BOUNDED-FAIL OpenPaths.%s cliptype %v fillrule %v open %v closed-subject %v clip %v -> %v: %s\n", which, ct, fr, open, subj, clip, solOpen, why)
		}
	}
	pt := func() Point64 { return Point64{int64(rng.Intn(6)) * 8, int64(rng.Intn(6)) * 8} }
	// directed witness of F37
	{
		open := Paths64{{{16, 32}, {16, 16}, {32, 16}, {16, 16}, {32, 24}}}
		clip := Paths64{{{40, 32}, {16, 32}, {0, 0}}}
		c := NewClipper64()
		c.AddPaths(open, Subject, true)
		c.AddPaths(clip, Clip, false)
		var solC, solO Paths64
		c.ExecuteOC(Intersection, NonZero, &solC, &solO)
		for _, q := range solO {
			for j := 0; j+1 < len(q); j++ {
				if voCovers(Point64{24, 16}, q[j], q[j+1]) {
					report("coverage-horizontal-spikes", Intersection, NonZero, open, nil, clip, solO, "point {24 16} of an open subject line: covered=true want false")
				}
			}
		}
	}
	// directed witness of F45: in tree form an open result path must not become a polygon of the tree
	{
		open := Paths64{{{2, 2}, {8, 3}, {5, 8}}}
		clip := Paths64{{{0, 0}, {10, 0}, {10, 10}, {0, 10}}}
		c := NewClipper64()
		c.AddPaths(open, Subject, true)
		c.AddPaths(clip, Clip, false)
		tree := NewPolyTree64()
		var od PathsD
		c.ExecutePolyTree64(Intersection, NonZero, tree, &od)
		cases++
		if tree.Count() != 0 {
			report("closed-solution-unaffected", Intersection, NonZero, open, nil, clip, nil, fmt.Sprintf("tree form: the open path appears as a polygon of the tree (%d top-level nodes, want 0)", tree.Count()))
		}
	}
	for it := 0; it < n; it++ {
		var open Paths64
		for k := 1 + rng.Intn(2); k > 0; k-- {
			p := make(Path64, 2+rng.Intn(4))
			for i := range p {
				p[i] = pt()
			}
			open = append(open, p)
		}
		var clip, subj Paths64
		for k := 1 + rng.Intn(2); k > 0; k-- {
			p := make(Path64, 3+rng.Intn(4))
			for i := range p {
				p[i] = pt()
			}
			clip = append(clip, p)
		}
		if rng.Intn(4) == 0 {
			p := make(Path64, 3+rng.Intn(3))
			for i := range p {
				p[i] = pt()
			}
			subj = append(subj, p)
		}
		closedAll := append(append(Paths64{}, subj...), clip...)
		for _, ct := range []ClipType{Intersection, Difference, Union} {
			for _, fr := range []FillRule{EvenOdd, NonZero, Positive, Negative} {
				cases++
				c := NewClipper64()
				c.AddPaths(open, Subject, true)
				if subj != nil {
					c.AddPaths(subj, Subject, false)
				}
				c.AddPaths(clip, Clip, false)
				var solC, solO Paths64
				c.ExecuteOC(ct, fr, &solC, &solO)
				// closed solution unaffected by the open paths
				c2 := NewClipper64()
				if subj != nil {
					c2.AddPaths(subj, Subject, false)
				}
				c2.AddPaths(clip, Clip, false)
				var solC2, solO2 Paths64
				c2.ExecuteOC(ct, fr, &solC2, &solO2)
				if fmt.Sprint(solC) != fmt.Sprint(solC2) {
					same := true
					for x := int64(-4); x <= 44 && same; x += 4 {
						for y := int64(-4); y <= 44; y += 4 {
							s := Point64{x, y}
							if vcFarFromAll(s, closedAll) && (vcWindAll(s, solC) != 0) != (vcWindAll(s, solC2) != 0) {
								same = false
							}
						}
					}
					if !same {
						report("closed-solution-unaffected", ct, fr, open, subj, clip, solC, fmt.Sprintf("closed solution without open paths: %v", solC2))
					}
				}
				// vertices on subject lines
				bad := ""
				for _, q := range solO {
					for _, v := range q {
						near := false
						for _, p := range open {
							for i := 0; i+1 < len(p); i++ {
								if voNear(v, p[i], p[i+1]) {
									near = true
								}
							}
						}
						if !near {
							bad = fmt.Sprintf("vertex %v is not on an open subject line", v)
						}
					}
				}
				if bad != "" {
					report("on-subject-lines", ct, fr, open, subj, clip, solO, bad)
				}
				// coverage
				bad = ""
				for _, p := range open {
					for i := 0; i+1 < len(p) && bad == ""; i++ {
						if p[i] == p[i+1] {
							continue
						}
						for k := int64(0); k <= 8; k++ {
							s := Point64{p[i].X + (p[i+1].X-p[i].X)*k/8, p[i].Y + (p[i+1].Y-p[i].Y)*k/8}
							if !vcFarFromAll(s, closedAll) {
								continue
							}
							// a sample close to another subject segment could be covered by that segment's piece
							lonely := true
							for _, p2 := range open {
								for j := 0; j+1 < len(p2); j++ {
									if (&p2[0] == &p[0] && j == i) || p2[j] == p2[j+1] {
										continue
									}
									if !voFar3(s, p2[j], p2[j+1]) && !voOnSeg(s, p2[j], p2[j+1]) {
										lonely = false // near, but not on, another segment
									}
								}
							}
							if !lonely {
								continue
							}
							inClip := vcFill(fr, vcWindAll(s, clip))
							inSubj := vcFill(fr, vcWindAll(s, subj))
							var want bool
							switch ct {
							case Intersection:
								want = inClip
							case Difference:
								want = !inClip
							default:
								want = !inClip && !inSubj
							}
							covered := false
							for _, q := range solO {
								for j := 0; j+1 < len(q); j++ {
									if voCovers(s, q[j], q[j+1]) {
										covered = true
									}
								}
							}
							if covered != want {
								bad = fmt.Sprintf("point %v of an open subject line: covered=%v want %v", s, covered, want)
								break
							}
						}
					}
				}
				if bad != "" {
					which := "coverage"
					for _, p := range open {
						for i := 0; i+2 < len(p); i++ {
							if p[i].Y == p[i+1].Y && p[i+1].Y == p[i+2].Y && (p[i+1].X-p[i].X)*(p[i+2].X-p[i+1].X) < 0 {
								which = "coverage-horizontal-spikes"
							}
						}
					}
					report(which, ct, fr, open, subj, clip, solO, bad)
				}
			}
		}
	}
	for _, w := range []string{"coverage", "coverage-horizontal-spikes", "on-subject-lines", "closed-solution-unaffected"} {
		fmt.Printf("VERIF-BOUNDED OpenPaths.%s cases=%d failures=%d\n", w, cases, fails[w])
	}
}
