//go:build verif

// prop: C08
// tier: quick
// name: Minkowski.sum-region Minkowski.diff-region Minkowski.commutes Minkowski.scaled-region
// what: (sum-region) a lattice point that is more than 2 units from the boundary of every parallelogram 'pattern edge + path edge' is inside MinkowskiSum64(pattern, path, closed) exactly when it lies in one of those parallelograms (the pattern's boundary reflected through the origin and translated to the point meets the path); (diff-region) the same for MinkowskiDiff64 with the parallelograms 'path edge - pattern edge'; (commutes) for closed paths sum(A,B) and sum(B,A) agree at the points that are far from the parallelogram boundaries of both
// bound: (scaled-region: the same inputs with every coordinate multiplied by 2^k, k drawn from {20, 27, 28, 29, 30, 31}, so that edge cross products pass 2^63 while coordinate sums stay below 2^37; the result's coordinates are divided by 2^k, rounded, and compared with the same exact small-coordinate oracle, sum and difference) 1500 (quick) / 50000 (thorough) pseudo-random inputs (pattern: 3-5 vertices on {-8,-4,..,8}^2, path: 2-5 vertices on {0,8,..,40}^2, closed or open, seeded by VERIF_SEED); lattice 2+4k on [-14,54]^2; exact integer parallelogram membership
// sampled: Minkowski.sum-region Minkowski.diff-region Minkowski.commutes Minkowski.scaled-region

package go_clipper2

import (
	"fmt"
	"math"
	"math/rand"
	"os"
	"strconv"
	"testing"
)

// v8InPara: p lies in the closed parallelogram o + s*u + t*v, 0 <= s,t <= 1 (non-degenerate)
func v8InPara(p, o, u, v Point64) bool {
	d := u.X*v.Y - u.Y*v.X
	if d == 0 {
		return false
	}
	qx, qy := p.X-o.X, p.Y-o.Y
	s := qx*v.Y - qy*v.X
	t := u.X*qy - u.Y*qx
	if d < 0 {
		d, s, t = -d, -s, -t
	}
	return 0 <= s && s <= d && 0 <= t && t <= d
}

func TestVerifBoundedMinkowski(t *testing.T) {
	n := 1500
	if os.Getenv("VERIF_TIER") == "thorough" {
		n = 50000
	}
	seed, _ := strconv.Atoi(os.Getenv("VERIF_SEED"))
	rng := rand.New(rand.NewSource(int64(seed) + 808))
	cases := map[string]int{}
	fails := map[string]int{}
	report := func(which string, pat, path Path64, closed bool, out Paths64, why string) {
		fails[which]++
		if fails[which] <= 3 {
			fmt.Printf("VERIF-BOUNDED-FAIL Minkowski.%s pattern %v path %v closed %v -> %v: %s\n", which, pat, path, closed, out, why)
		}
	}
	var samples []Point64
	for x := int64(-14); x <= 54; x += 4 {
		for y := int64(-14); y <= 54; y += 4 {
			samples = append(samples, Point64{x, y})
		}
	}
	type para struct{ o, u, v Point64 }
	build := func(pat, path Path64, closed bool, sign int64) []para {
		var ps []para
		m := len(path)
		last := m - 1
		if closed {
			last = m
		}
		for i := range pat {
			a0, a1 := pat[i], pat[(i+1)%len(pat)]
			for j := 0; j < last; j++ {
				b0, b1 := path[j], path[(j+1)%m]
				ps = append(ps, para{Point64{b0.X + sign*a0.X, b0.Y + sign*a0.Y}, Point64{sign * (a1.X - a0.X), sign * (a1.Y - a0.Y)}, Point64{b1.X - b0.X, b1.Y - b0.Y}})
			}
		}
		return ps
	}
	farFromParas := func(s Point64, ps []para) bool {
		for _, q := range ps {
			c := [4]Point64{q.o, {q.o.X + q.u.X, q.o.Y + q.u.Y}, {q.o.X + q.u.X + q.v.X, q.o.Y + q.u.Y + q.v.Y}, {q.o.X + q.v.X, q.o.Y + q.v.Y}}
			for k := 0; k < 4; k++ {
				if !vcFar(s, c[k], c[(k+1)%4]) {
					return false
				}
			}
		}
		return true
	}
	inParas := func(s Point64, ps []para) bool {
		for _, q := range ps {
			if v8InPara(s, q.o, q.u, q.v) {
				return true
			}
		}
		return false
	}
	for it := 0; it < n; it++ {
		pat := make(Path64, 3+rng.Intn(3))
		for i := range pat {
			pat[i] = Point64{int64(rng.Intn(5)-2) * 4, int64(rng.Intn(5)-2) * 4}
		}
		path := make(Path64, 2+rng.Intn(4))
		for i := range path {
			path[i] = Point64{int64(rng.Intn(6)) * 8, int64(rng.Intn(6)) * 8}
		}
		closed := rng.Intn(2) == 0 && len(path) >= 3
		for _, which := range []string{"sum-region", "diff-region"} {
			cases[which]++
			sign := int64(1)
			var out Paths64
			if which == "sum-region" {
				out = MinkowskiSum64(append(Path64{}, pat...), append(Path64{}, path...), closed)
			} else {
				sign = -1
				out = MinkowskiDiff64(append(Path64{}, pat...), append(Path64{}, path...), closed)
			}
			ps := build(pat, path, closed, sign)
			bad := ""
			for _, s := range samples {
				if !farFromParas(s, ps) {
					continue
				}
				want := inParas(s, ps)
				got := vcWindAll(s, out) != 0
				if got != want {
					bad = fmt.Sprintf("at %v inside-result=%v, want %v", s, got, want)
					break
				}
			}
			if bad != "" {
				report(which, pat, path, closed, out, bad)
			}
		}
		{
			k := []uint{20, 27, 28, 29, 30, 31}[rng.Intn(6)]
			S := int64(1) << k
			scale := func(p Path64) Path64 {
				q := make(Path64, len(p))
				for i := range p {
					q[i] = Point64{p[i].X * S, p[i].Y * S}
				}
				return q
			}
			for _, sum := range []bool{true, false} {
				cases["scaled-region"]++
				sign := int64(1)
				var big Paths64
				if sum {
					big = MinkowskiSum64(scale(pat), scale(path), closed)
				} else {
					sign = -1
					big = MinkowskiDiff64(scale(pat), scale(path), closed)
				}
				out := make(Paths64, len(big))
				for i, p := range big {
					out[i] = make(Path64, len(p))
					for j, q := range p {
						out[i][j] = Point64{int64(math.Round(float64(q.X) / float64(S))), int64(math.Round(float64(q.Y) / float64(S)))}
					}
				}
				ps := build(pat, path, closed, sign)
				for _, s := range samples {
					if !farFromParas(s, ps) {
						continue
					}
					want := inParas(s, ps)
					got := vcWindAll(s, out) != 0
					if got != want {
						report("scaled-region", scale(pat), scale(path), closed, big, fmt.Sprintf("sum=%v scale 2^%d: at %v*2^%d inside-result=%v, want %v", sum, k, s, k, got, want))
						break
					}
				}
			}
		}
		if closed && len(pat) >= 3 {
			cases["commutes"]++
			ab := MinkowskiSum64(append(Path64{}, pat...), append(Path64{}, path...), true)
			ba := MinkowskiSum64(append(Path64{}, path...), append(Path64{}, pat...), true)
			ps := append(build(pat, path, true, 1), build(path, pat, true, 1)...)
			for _, s := range samples {
				if farFromParas(s, ps) && (vcWindAll(s, ab) != 0) != (vcWindAll(s, ba) != 0) {
					report("commutes", pat, path, true, ab, fmt.Sprintf("at %v sum(A,B) inside=%v, sum(B,A) inside=%v", s, vcWindAll(s, ab) != 0, vcWindAll(s, ba) != 0))
					break
				}
			}
		}
	}
	for _, w := range []string{"sum-region", "diff-region", "commutes", "scaled-region"} {
		fmt.Printf("VERIF-BOUNDED Minkowski.%s cases=%d failures=%d\n", w, cases[w], fails[w])
	}
}
