//go:build verif

// prop: C01 C02 C19
// tier: quick
// name: BooleanOpPaths64.region BooleanOpPaths64.solution-winding BooleanOpPaths64.directed
// what: (region) at every sample point more than 2 units from every input edge the returned solution has non-zero winding number exactly when the boolean combination of 'inside subject' and 'inside clip' (fill rule applied to the exact winding numbers) holds; (solution-winding) at every sample point more than 2 units from every solution edge the solution's winding number is 0 or 1; (directed) the same region check on recorded witnesses of repaired defects
// bound: 3000 (quick) / 150000 (thorough) pseudo-random inputs (subject: 1-2 polygons, clip: 0-2 polygons, 3-6 vertices each on the grid {0,4,..,40}^2, seeded by VERIF_SEED) x 4 clip types x 4 fill rules; sample points on the lattice 2+4k in [-2,42]^2; exact integer winding oracle
// sampled: BooleanOpPaths64.region BooleanOpPaths64.solution-winding BooleanOpPaths64.directed

package go_clipper2

import (
	"fmt"
	"math/rand"
	"os"
	"strconv"
	"testing"
)

func TestVerifBoundedBoolean(t *testing.T) {
	n := 3000
	if os.Getenv("VERIF_TIER") == "thorough" {
		n = 150000
	}
	seed, _ := strconv.Atoi(os.Getenv("VERIF_SEED"))
	rng := rand.New(rand.NewSource(int64(seed) + 101))
	var samples []Point64
	for x := int64(-2); x <= 42; x += 4 {
		for y := int64(-2); y <= 42; y += 4 {
			samples = append(samples, Point64{x, y})
		}
	}
	cases := map[string]int{}
	fails := map[string]int{}
	cts := []ClipType{Intersection, Union, Difference, Xor}
	frs := []FillRule{EvenOdd, NonZero, Positive, Negative}
	check := func(which string, subj, clip Paths64, samples []Point64) {
		var far []Point64
		all := append(append(Paths64{}, subj...), clip...)
		for _, s := range samples {
			if vcFarFromAll(s, all) {
				far = append(far, s)
			}
		}
		for _, ct := range cts {
			for _, fr := range frs {
				cases[which]++
				if which == "region" {
					cases["solution-winding"]++
				}
				in1 := make(Paths64, len(subj))
				for i := range subj {
					in1[i] = append(Path64{}, subj[i]...)
				}
				var in2 Paths64
				if clip != nil {
					in2 = make(Paths64, len(clip))
					for i := range clip {
						in2[i] = append(Path64{}, clip[i]...)
					}
				}
				sol, pan := vcBool(ct, in1, in2, fr)
				bad := pan
				for _, s := range far {
					if bad != "" {
						break
					}
					want := vcOp(ct, vcFill(fr, vcWindAll(s, subj)), vcFill(fr, vcWindAll(s, clip)))
					got := vcWindAll(s, sol) != 0
					if got != want {
						bad = fmt.Sprintf("at %v inside-solution=%v, want %v", s, got, want)
						break
					}
				}
				if bad != "" {
					fails[which]++
					if fails[which] <= 3 {
						fmt.Printf("VERIF-BOUNDED-FAIL BooleanOpPaths64.%s cliptype %v fillrule %v subject %v clip %v -> %v: %s\n", which, ct, fr, subj, clip, sol, bad)
					}
				}
				if which == "region" {
					bad = ""
					for _, s := range samples {
						if !vcFarFromAll(s, sol) {
							continue
						}
						if w := vcWindAll(s, sol); w != 0 && w != 1 {
							bad = fmt.Sprintf("solution winding %d at %v", w, s)
							break
						}
					}
					if bad != "" {
						fails["solution-winding"]++
						if fails["solution-winding"] <= 3 {
							fmt.Printf("VERIF-BOUNDED-FAIL BooleanOpPaths64.solution-winding cliptype %v fillrule %v subject %v clip %v -> %v: %s\n", ct, fr, subj, clip, sol, bad)
						}
					}
				}
			}
		}
	}
	// directed: witnesses of repaired defects (F33 areaOP, F34 doSplitOp, F35 fixSelfIntersects, F36 joins)
	check("directed", Paths64{{{0, 10}, {-20, -10}, {10, -50}, {30, -30}}, {{-10, -10}, {-30, -30}, {10, -50}, {30, -30}}, {{0, 10}, {-20, -10}, {-20, -20}, {0, 0}}}, nil,
		[]Point64{{10, -30}, {-10, -20}, {0, -10}, {-15, -12}, {20, -30}, {5, 0}, {-40, -40}, {40, 40}})
	check("directed", Paths64{{{36, 4}, {28, 20}, {32, 24}, {20, 28}, {28, 40}}}, nil, samples)
	check("directed", Paths64{{{36, 20}, {8, 24}, {16, 20}, {4, 4}, {12, 40}, {0, 0}}}, nil, samples)
	check("directed", Paths64{{{0, 36}, {40, 40}, {8, 20}, {32, 40}, {12, 32}, {8, 8}}}, nil, samples)
	check("directed", Paths64{{{4, 40}, {12, 4}, {20, 24}, {28, 0}, {32, 28}}}, Paths64{{{8, 8}, {36, 12}, {20, 0}}}, samples)
	check("directed", Paths64{{{16, 24}, {8, 40}, {28, 28}, {40, 32}, {4, 20}, {16, 4}, {0, 36}}}, nil, samples)
	randPoly := func() Path64 {
		p := make(Path64, 3+rng.Intn(4))
		for i := range p {
			p[i] = Point64{int64(rng.Intn(11)) * 4, int64(rng.Intn(11)) * 4}
		}
		return p
	}
	for it := 0; it < n; it++ {
		subj := Paths64{randPoly()}
		if rng.Intn(3) == 0 {
			subj = append(subj, randPoly())
		}
		var clip Paths64
		for k := rng.Intn(3); k > 0; k-- {
			clip = append(clip, randPoly())
		}
		check("region", subj, clip, samples)
	}
	for _, w := range []string{"region", "solution-winding", "directed"} {
		fmt.Printf("VERIF-BOUNDED BooleanOpPaths64.%s cases=%d failures=%d\n", w, cases[w], fails[w])
	}
}
