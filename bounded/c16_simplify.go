//go:build verif

// prop: C16
// tier: quick
// name: SimplifyPath64.exit-condition
// what: SimplifyPath64 terminates; the result is a sub-sequence of the input; open paths keep both end points; on return no retained vertex (open end points aside) is within epsilon of the line through its retained neighbours unless only two vertices remain; with epsilon 0 the exact shoelace sum of a closed path is unchanged
// bound: every path of 4..5 points (quick) / 4..6 points (thorough) over the 3x3 grid {0,1,2}^2, epsilon in {0, 0.5, 1, 2}, closed and open, exhaustive, integer oracles; plus 3 directed closed paths with coordinate differences near 2^29 (epsilon 0)

package go_clipper2

import (
	"fmt"
	"os"
	"testing"
)

func TestVerifBoundedSimplify(t *testing.T) {
	maxN := 5
	if os.Getenv("VERIF_TIER") == "thorough" {
		maxN = 6
	}
	var grid []Point64
	for x := int64(0); x < 3; x++ {
		for y := int64(0); y < 3; y++ {
			grid = append(grid, Point64{x, y})
		}
	}
	eps := []float64{0, 0.5, 1, 2}
	eps4 := []int64{0, 1, 4, 16} // 4*eps^2
	cases, fails := 0, 0
	report := func(p Path64, e float64, closed bool, r Path64, why string) {
		fails++
		if fails <= 3 {
			fmt.Printf("VERIF-BOUNDED-FAIL SimplifyPath64.exit-condition path %v eps %v closed %v -> %v: %s\n", p, e, closed, r, why)
		}
	}
	subseq := func(sub, of Path64) bool {
		j := 0
		for i := 0; i < len(of) && j < len(sub); i++ {
			if of[i] == sub[j] {
				j++
			}
		}
		return j == len(sub)
	}
	shoe := func(p Path64) int64 {
		var s int64
		n := len(p)
		for i := 0; i < n; i++ {
			q := p[(i+n-1)%n]
			s += (q.Y + p[i].Y) * (q.X - p[i].X)
		}
		return s
	}
	near := func(pt, a, b Point64, e4 int64) bool {
		// 4*cross^2 <= 4eps^2 * |b-a|^2   (a == b: distance counted as 0, as the library does)
		c := b.X - a.X
		d := b.Y - a.Y
		if c == 0 && d == 0 {
			return true
		}
		cr := (pt.X-a.X)*d - c*(pt.Y-a.Y)
		return 4*cr*cr <= e4*(c*c+d*d)
	}
	var rec func(p Path64)
	rec = func(p Path64) {
		if len(p) >= 4 {
			for ei, e := range eps {
				for _, closed := range []bool{true, false} {
					cases++
					in := append(Path64{}, p...)
					r := SimplifyPath64(in, e, closed)
					n := len(r)
					switch {
					case !subseq(r, p):
						report(p, e, closed, r, "not a sub-sequence")
						continue
					case !closed && (n < 2 || r[0] != p[0] || r[n-1] != p[len(p)-1]):
						report(p, e, closed, r, "open end point dropped")
						continue
					case closed && e == 0 && shoe(r) != shoe(p):
						report(p, e, closed, r, "area changed with epsilon 0")
						continue
					}
					if n > 2 {
						for i := 0; i < n; i++ {
							if !closed && (i == 0 || i == n-1) {
								continue
							}
							if near(r[i], r[(i+n-1)%n], r[(i+1)%n], eps4[ei]) {
								report(p, e, closed, r, fmt.Sprintf("retained vertex %d is within epsilon of the line through its neighbours", i))
								break
							}
						}
					}
				}
			}
		}
		if len(p) == maxN {
			return
		}
		for _, g := range grid {
			rec(append(append(Path64{}, p...), g))
		}
	}
	rec(Path64{})
	// directed: coordinate differences near 2^29, three consecutive vertices with exact cross product 1 (F44)
	k := int64(1) << 28
	for _, p := range []Path64{{{-k, -k}, {k - 1, k - 2}, {k, k - 1}, {k, -k}}, {{k, -k}, {-k, -k}, {k - 1, k - 2}, {k, k - 1}}, {{0, 0}, {2*k - 1, 2*k - 2}, {2 * k, 2*k - 1}, {2 * k, 0}}} {
		cases++
		r := SimplifyPath64(append(Path64{}, p...), 0, true)
		if !subseq(r, p) || shoe(r) != shoe(p) {
			report(p, 0, true, r, "area changed with epsilon 0 (large coordinate differences)")
		}
	}
	fmt.Printf("VERIF-BOUNDED SimplifyPath64.exit-condition cases=%d failures=%d\n", cases, fails)
}
