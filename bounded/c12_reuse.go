//go:build verif

// prop: C12
// tier: quick
// name: Reuse.same-as-fresh Reuse.inputs-untouched Reuse.offset-same-as-fresh
// what: (same-as-fresh) on one engine object, after an arbitrary prefix of Execute / ExecuteOC / ExecutePolyTree64 calls with other clip types and fill rules and with a solution argument that already holds data, the result of Execute is identical to that of a fresh engine given the same paths (added in one call or split over several calls); (inputs-untouched) no call modifies a path slice supplied by the caller
// bound: (offset-same-as-fresh: one ClipperOffset object holding the subject polygons as one group with a random join type and end type, executed with 1-2 earlier deltas from {-6,-2,-0.3,0.3,2,6,11} and a stale solution argument, then with a final delta: the result equals that of a fresh ClipperOffset given the same paths and the final delta only) 1000 (quick) / 40000 (thorough) pseudo-random inputs (1-3 subject and 0-2 clip polygons of 3-6 vertices on the grid {0,4,..,40}^2, seeded by VERIF_SEED), each with a random prefix of 1-3 earlier executions
// sampled: Reuse.same-as-fresh Reuse.inputs-untouched Reuse.offset-same-as-fresh

package go_clipper2

import (
	"fmt"
	"math/rand"
	"os"
	"strconv"
	"testing"
)

func TestVerifBoundedReuse(t *testing.T) {
	n := 1000
	if os.Getenv("VERIF_TIER") == "thorough" {
		n = 40000
	}
	seed, _ := strconv.Atoi(os.Getenv("VERIF_SEED"))
	rng := rand.New(rand.NewSource(int64(seed) + 1212))
	cases := map[string]int{}
	fails := map[string]int{}
	report := func(which string, subj, clip Paths64, why string) {
		fails[which]++
		if fails[which] <= 3 {
			fmt.Printf("VERIF-BOUNDED-FAIL Reuse.%s subject %v clip %v: %s\n", which, subj, clip, why)
		}
	}
	randPoly := func() Path64 {
		p := make(Path64, 3+rng.Intn(4))
		for i := range p {
			p[i] = Point64{int64(rng.Intn(11)) * 4, int64(rng.Intn(11)) * 4}
		}
		if rng.Intn(4) == 0 {
			p = append(p, p[0]) // explicit closing vertex
		}
		return p
	}
	cts := []ClipType{Intersection, Union, Difference, Xor}
	frs := []FillRule{EvenOdd, NonZero, Positive, Negative}
	for it := 0; it < n; it++ {
		var subj, clip Paths64
		for k := 1 + rng.Intn(3); k > 0; k-- {
			subj = append(subj, randPoly())
		}
		for k := rng.Intn(3); k > 0; k-- {
			clip = append(clip, randPoly())
		}
		subj0, clip0 := fmt.Sprint(subj), fmt.Sprint(clip)
		ct, fr := cts[rng.Intn(4)], frs[rng.Intn(4)]
		fresh := NewClipper64()
		fresh.AddPaths(subj, Subject, false)
		if clip != nil {
			fresh.AddPaths(clip, Clip, false)
		}
		var want Paths64
		fresh.Execute(ct, fr, &want)

		used := NewClipper64()
		// paths added in several calls
		for _, p := range subj {
			used.AddPaths(Paths64{p}, Subject, false)
		}
		if clip != nil {
			used.AddPaths(clip, Clip, false)
		}
		var got Paths64
		for k := 1 + rng.Intn(3); k > 0; k-- {
			switch rng.Intn(3) {
			case 0:
				got = Paths64{{{1, 2}, {3, 4}, {5, 6}}} // stale data in the solution argument
				used.Execute(cts[rng.Intn(4)], frs[rng.Intn(4)], &got)
			case 1:
				var c2, o2 Paths64
				used.ExecuteOC(cts[rng.Intn(4)], frs[rng.Intn(4)], &c2, &o2)
			default:
				tr := NewPolyTree64()
				var op PathsD
				used.ExecutePolyTree64(cts[rng.Intn(4)], frs[rng.Intn(4)], tr, &op)
			}
		}
		got = Paths64{{{9, 9}, {8, 8}, {7, 7}}}
		used.Execute(ct, fr, &got)
		cases["same-as-fresh"]++
		if fmt.Sprint(got) != fmt.Sprint(want) {
			report("same-as-fresh", subj, clip, fmt.Sprintf("cliptype %v fillrule %v: fresh engine %v, reused engine %v", ct, fr, want, got))
		}
		cases["inputs-untouched"]++
		if fmt.Sprint(subj) != subj0 || fmt.Sprint(clip) != clip0 {
			report("inputs-untouched", subj, clip, "a caller-supplied path was modified")
		}
	}
	// the offsetting engine: earlier executions with other deltas leave nothing behind
	deltas := []float64{-6, -2, -0.3, 0.3, 2, 6, 11}
	jts := []JoinType{Square, Bevel, Round, Miter}
	ets := []EndType{Polygon, Polygon, Joined, Butt, SquareET, RoundET}
	for it := 0; it < n; it++ {
		var subj Paths64
		for k := 1 + rng.Intn(2); k > 0; k-- {
			subj = append(subj, randPoly())
		}
		subj0 := fmt.Sprint(subj)
		jt, et := jts[rng.Intn(4)], ets[rng.Intn(6)]
		final := deltas[rng.Intn(len(deltas))]
		fresh := NewClipperOffset(2, 0, false, false)
		fresh.AddPaths(subj, jt, et)
		var want Paths64
		fresh.Execute64(final, &want)
		used := NewClipperOffset(2, 0, false, false)
		used.AddPaths(subj, jt, et)
		var got Paths64
		for k := 1 + rng.Intn(2); k > 0; k-- {
			got = Paths64{{{1, 2}, {3, 4}, {5, 6}}}
			used.Execute64(deltas[rng.Intn(len(deltas))], &got)
		}
		got = Paths64{{{9, 9}, {8, 8}, {7, 7}}}
		used.Execute64(final, &got)
		cases["offset-same-as-fresh"]++
		if fmt.Sprint(got) != fmt.Sprint(want) {
			report("offset-same-as-fresh", subj, nil, fmt.Sprintf("join %v end %v delta %v: fresh offsetter %v, reused offsetter %v", jt, et, final, want, got))
		}
		cases["inputs-untouched"]++
		if fmt.Sprint(subj) != subj0 {
			report("inputs-untouched", subj, nil, "a caller-supplied path was modified by the offsetter")
		}
	}
	for _, w := range []string{"same-as-fresh", "inputs-untouched", "offset-same-as-fresh"} {
		fmt.Printf("VERIF-BOUNDED Reuse.%s cases=%d failures=%d\n", w, cases[w], fails[w])
	}
}
