//go:build verif

// prop: C17
// tier: quick
// name: Symmetry.repeatable Symmetry.rewritings Symmetry.lattice-maps
// what: (repeatable) calling BooleanOpPaths64 twice with equal inputs gives identical output; (rewritings) the solution region (non-zero winding at lattice points more than 2 units from every input edge) is unchanged when the paths of a set are permuted, a closed path is started at another vertex, a vertex is repeated, a path is reversed under EvenOdd, all paths are reversed under NonZero or under Positive exchanged with Negative, or subject and clip are exchanged for Union, Intersection and Xor; (lattice-maps) mirroring in x, in y, and rotating by 90 degrees maps the region accordingly
// bound: 1500 (quick) / 60000 (thorough) pseudo-random inputs (1-2 subject and 0-2 clip polygons of 3-6 vertices on the grid {0,4,..,40}^2, seeded by VERIF_SEED) x 4 clip types x 4 fill rules
// sampled: Symmetry.repeatable Symmetry.rewritings Symmetry.lattice-maps

package go_clipper2

import (
	"fmt"
	"math/rand"
	"os"
	"strconv"
	"testing"
)

func v7Copy(pp Paths64) Paths64 {
	if pp == nil {
		return nil
	}
	out := make(Paths64, len(pp))
	for i := range pp {
		out[i] = append(Path64{}, pp[i]...)
	}
	return out
}

func v7Map(pp Paths64, f func(Point64) Point64) Paths64 {
	out := v7Copy(pp)
	for i := range out {
		for j := range out[i] {
			out[i][j] = f(out[i][j])
		}
	}
	return out
}

func TestVerifBoundedSymmetry(t *testing.T) {
	n := 1500
	if os.Getenv("VERIF_TIER") == "thorough" {
		n = 60000
	}
	seed, _ := strconv.Atoi(os.Getenv("VERIF_SEED"))
	rng := rand.New(rand.NewSource(int64(seed) + 1717))
	var samples []Point64
	for x := int64(-2); x <= 42; x += 4 {
		for y := int64(-2); y <= 42; y += 4 {
			samples = append(samples, Point64{x, y})
		}
	}
	cases := map[string]int{}
	fails := map[string]int{}
	report := func(which string, ct ClipType, fr FillRule, subj, clip Paths64, why string) {
		fails[which]++
		if fails[which] <= 3 {
			fmt.Printf("VERIF-BOUNDED-FAIL Symmetry.%s cliptype %v fillrule %v subject %v clip %v: %s\n", which, ct, fr, subj, clip, why)
		}
	}
	randPoly := func() Path64 {
		p := make(Path64, 3+rng.Intn(4))
		for i := range p {
			p[i] = Point64{int64(rng.Intn(11)) * 4, int64(rng.Intn(11)) * 4}
		}
		return p
	}
	// same region? g maps a sample point of the original into the transformed frame
	sameRegion := func(all Paths64, a, b Paths64, g func(Point64) Point64) string {
		for _, s := range samples {
			if !vcFarFromAll(s, all) {
				continue
			}
			if (vcWindAll(s, a) != 0) != (vcWindAll(g(s), b) != 0) {
				return fmt.Sprintf("at %v the original has inside=%v, the rewritten input gives %v", s, vcWindAll(s, a) != 0, vcWindAll(g(s), b) != 0)
			}
		}
		return ""
	}
	id := func(p Point64) Point64 { return p }
	for it := 0; it < n; it++ {
		subj := Paths64{randPoly()}
		if rng.Intn(2) == 0 {
			subj = append(subj, randPoly())
		}
		var clip Paths64
		for k := rng.Intn(3); k > 0; k-- {
			clip = append(clip, randPoly())
		}
		all := append(v7Copy(subj), clip...)
		// rewritings of the way the input is written down
		perm := v7Copy(subj)
		if len(perm) == 2 {
			perm[0], perm[1] = perm[1], perm[0]
		}
		rot := v7Copy(subj)
		r := 1 + rng.Intn(len(rot[0])-1)
		rot[0] = append(append(Path64{}, rot[0][r:]...), rot[0][:r]...)
		dup := v7Copy(subj)
		k := rng.Intn(len(dup[0]))
		dup[0] = append(append(append(Path64{}, dup[0][:k+1]...), dup[0][k]), dup[0][k+1:]...)
		if rng.Intn(2) == 0 {
			dup[0] = append(dup[0], dup[0][0]) // explicit closing vertex
		}
		revS := v7Copy(subj)
		revS[0] = ReversePath(revS[0])
		revAllS, revAllC := v7Copy(subj), v7Copy(clip)
		for i := range revAllS {
			revAllS[i] = ReversePath(revAllS[i])
		}
		for i := range revAllC {
			revAllC[i] = ReversePath(revAllC[i])
		}
		for _, ct := range []ClipType{Intersection, Union, Difference, Xor} {
			for _, fr := range []FillRule{EvenOdd, NonZero, Positive, Negative} {
				base, pan := vcBool(ct, v7Copy(subj), v7Copy(clip), fr)
				if pan != "" {
					cases["repeatable"]++
					report("repeatable", ct, fr, subj, clip, pan)
					continue
				}
				cases["repeatable"]++
				if again := BooleanOpPaths64(ct, v7Copy(subj), v7Copy(clip), fr); fmt.Sprint(again) != fmt.Sprint(base) {
					report("repeatable", ct, fr, subj, clip, fmt.Sprintf("first %v second %v", base, again))
				}
				cases["rewritings"]++
				bad := ""
				try := func(name string, s2, c2 Paths64, fr2 FillRule) {
					if bad != "" {
						return
					}
					r2, pan2 := vcBool(ct, v7Copy(s2), v7Copy(c2), fr2)
					if pan2 != "" {
						bad = name + ": " + pan2
					} else if why := sameRegion(all, base, r2, id); why != "" {
						bad = name + ": " + why
					}
				}
				try("paths permuted", perm, clip, fr)
				try("start vertex rotated", rot, clip, fr)
				try("vertex repeated", dup, clip, fr)
				if fr == EvenOdd {
					try("one path reversed", revS, clip, fr)
				}
				switch fr {
				case NonZero, EvenOdd:
					try("all paths reversed", revAllS, revAllC, fr)
				case Positive:
					try("all paths reversed, Negative", revAllS, revAllC, Negative)
				case Negative:
					try("all paths reversed, Positive", revAllS, revAllC, Positive)
				}
				if ct != Difference && clip != nil {
					try("subject and clip exchanged", clip, subj, fr)
				}
				if bad != "" {
					report("rewritings", ct, fr, subj, clip, bad)
				}
				cases["lattice-maps"]++
				bad = ""
				for _, m := range []struct {
					name string
					f    func(Point64) Point64
					flip bool // orientation reversing
				}{
					{"mirror x", func(p Point64) Point64 { return Point64{40 - p.X, p.Y} }, true},
					{"mirror y", func(p Point64) Point64 { return Point64{p.X, 40 - p.Y} }, true},
					{"rotate 90", func(p Point64) Point64 { return Point64{40 - p.Y, p.X} }, false},
				} {
					fr2 := fr
					if m.flip {
						if fr == Positive {
							fr2 = Negative
						} else if fr == Negative {
							fr2 = Positive
						}
					}
					res, pan3 := vcBool(ct, v7Map(subj, m.f), v7Map(clip, m.f), fr2)
					if pan3 != "" && bad == "" {
						bad = m.name + ": " + pan3
					} else if why := sameRegion(all, base, res, m.f); why != "" && bad == "" {
						bad = m.name + ": " + why
					}
				}
				if bad != "" {
					report("lattice-maps", ct, fr, subj, clip, bad)
				}
			}
		}
	}
	for _, w := range []string{"repeatable", "rewritings", "lattice-maps"} {
		fmt.Printf("VERIF-BOUNDED Symmetry.%s cases=%d failures=%d\n", w, cases[w], fails[w])
	}
}
