//go:build verif

// prop: C03
// tier: quick
// name: Total.no-panic Total.terminates Total.execute-succeeds
// what: for degenerate and adversarial inputs (empty sets, empty / one- / two-point paths, repeated points, collinear and all-horizontal paths, zero-area and coincident polygons, empty and inverted rectangles, zero / negative / huge deltas, every enum value including NoClip and out-of-range ones) every exported operation returns normally (no-panic), within 5 seconds (terminates), and engine Execute calls report success (execute-succeeds)
// bound: 4000 (quick) / 150000 (thorough) pseudo-random argument tuples, seeded by VERIF_SEED; coordinates from {0,1,2,3,5,8,100} mixed with +-2^29 corner values; the floating-point entry points receive the same values divided by 100 (so that the scaled coordinates stay within 2^29: beyond that the 64-bit products overflow - known finding F13 - and the rectangle clipper can loop for ever); each tuple is passed to every exported operation that accepts it
// sampled: Total.no-panic Total.terminates Total.execute-succeeds

package go_clipper2

import (
	"fmt"
	"math/rand"
	"os"
	"strconv"
	"testing"
	"time"
)

func TestVerifBoundedTotal(t *testing.T) {
	n := 4000
	if os.Getenv("VERIF_TIER") == "thorough" {
		n = 150000
	}
	seed, _ := strconv.Atoi(os.Getenv("VERIF_SEED"))
	rng := rand.New(rand.NewSource(int64(seed) + 303))
	cases := 0
	fails := map[string]int{}
	report := func(which, op string, args interface{}, why string) {
		fails[which]++
		if fails[which] <= 4 {
			fmt.Printf("VERIF-BOUNDED-FAIL Total.%s %s%v: %s\n", which, op, args, why)
		}
	}
	vals := []int64{0, 1, 2, 3, 5, 8, 100}
	coord := func() int64 {
		switch rng.Intn(12) {
		case 0:
			return 1 << 29
		case 1:
			return -(1 << 29)
		case 2:
			return -vals[rng.Intn(len(vals))]
		}
		return vals[rng.Intn(len(vals))]
	}
	path := func() Path64 {
		var p Path64
		switch rng.Intn(8) {
		case 0:
			return nil
		case 1:
			return Path64{}
		case 2: // all horizontal
			y := coord()
			for k := rng.Intn(6); k > 0; k-- {
				p = append(p, Point64{coord(), y})
			}
			return p
		case 3: // collinear on a diagonal
			for k := rng.Intn(6); k > 0; k-- {
				v := coord()
				p = append(p, Point64{v, v})
			}
			return p
		case 4: // repeated points
			q := Point64{coord(), coord()}
			for k := rng.Intn(5); k > 0; k-- {
				p = append(p, q)
			}
			return p
		}
		for k := rng.Intn(7); k > 0; k-- {
			p = append(p, Point64{coord(), coord()})
			if rng.Intn(4) == 0 {
				p = append(p, p[len(p)-1])
			}
		}
		return p
	}
	paths := func() Paths64 {
		switch rng.Intn(6) {
		case 0:
			return nil
		case 1:
			return Paths64{}
		}
		var pp Paths64
		for k := 1 + rng.Intn(3); k > 0; k-- {
			pp = append(pp, path())
		}
		if rng.Intn(4) == 0 && len(pp) > 0 {
			pp = append(pp, append(Path64{}, pp[0]...)) // coincident polygons
		}
		return pp
	}
	toD := func(pp Paths64) PathsD {
		if pp == nil {
			return nil
		}
		out := make(PathsD, len(pp))
		for i, p := range pp {
			for _, v := range p {
				out[i] = append(out[i], PointD{float64(v.X) / 100, float64(v.Y) / 100}) // precision 2 scales back to the integer values
			}
		}
		return out
	}
	// run one call with panic capture and a watchdog
	run := func(op string, args interface{}, f func() bool) {
		cases++
		done := make(chan string, 1)
		go func() {
			defer func() {
				if r := recover(); r != nil {
					done <- fmt.Sprintf("panic: %v", r)
				}
			}()
			if f() {
				done <- ""
			} else {
				done <- "failure flag"
			}
		}()
		select {
		case r := <-done:
			if r == "failure flag" {
				report("execute-succeeds", op, args, "Execute returned false")
			} else if r != "" {
				report("no-panic", op, args, r)
			}
		case <-time.After(5 * time.Second):
			report("terminates", op, args, "no return within 5 seconds")
		}
	}
	cts := []ClipType{NoClip, Intersection, Union, Difference, Xor, ClipType(7)}
	frs := []FillRule{EvenOdd, NonZero, Positive, Negative, FillRule(9)}
	jts := []JoinType{Miter, Square, Bevel, Round, JoinType(6)}
	ets := []EndType{Polygon, Joined, Butt, SquareET, RoundET, EndType(8)}
	deltas := []float64{0, 0.3, -0.3, 1, -1, 2.5, -7, 50, -50, 1e6, -1e6}
	for it := 0; it < n; it++ {
		s, c := paths(), paths()
		sd, cd := toD(s), toD(c)
		ct, fr := cts[rng.Intn(len(cts))], frs[rng.Intn(len(frs))]
		var p0 Path64
		if len(s) > 0 {
			p0 = s[0]
		}
		var p0d PathD
		if len(sd) > 0 {
			p0d = sd[0]
		}
		a := []interface{}{ct, fr, s, c}
		run("BooleanOpPaths64", a, func() bool { BooleanOpPaths64(ct, s, c, fr); return true })
		run("BooleanOpPolyTree64", a, func() bool { BooleanOpPolyTree64(ct, s, c, fr); return true })
		run("BooleanOpPathsD", a, func() bool { BooleanOpPathsD(ct, sd, cd, fr); return true })
		run("BooleanOpPolyTreeD", a, func() bool { BooleanOpPolyTreeD(ct, sd, cd, fr, 1); return true })
		run("clipper64.Execute", a, func() bool {
			e := NewClipper64()
			e.AddPaths(s, Subject, false)
			e.AddPaths(c, Clip, false)
			var sol Paths64
			ok := e.Execute(ct, fr, &sol)
			ok2 := e.Execute(ct, fr, &sol)
			return ok && ok2
		})
		run("clipper64.ExecuteOC(open subject)", a, func() bool {
			e := NewClipper64()
			e.AddPaths(s, Subject, true)
			e.AddPaths(c, Clip, false)
			var so, sc Paths64
			return e.ExecuteOC(ct, fr, &sc, &so)
		})
		run("clipperD.Execute", a, func() bool {
			e := NewClipperD(2)
			e.AddPaths(sd, Subject, false)
			e.AddPaths(cd, Clip, false)
			var sol PathsD
			return e.Execute(ct, fr, &sol)
		})
		jt, et, dl := jts[rng.Intn(len(jts))], ets[rng.Intn(len(ets))], deltas[rng.Intn(len(deltas))]
		b := []interface{}{s, dl, jt, et}
		run("InflatePaths64", b, func() bool { InflatePaths64(s, dl, jt, et); return true })
		run("InflatePathsD", b, func() bool { InflatePathsD(sd, dl/100, jt, et); return true })
		cl := rng.Intn(2) == 0
		run("MinkowskiSum64", []interface{}{p0, c, cl}, func() bool {
			var q Path64
			if len(c) > 0 {
				q = c[0]
			}
			MinkowskiSum64(p0, q, cl)
			MinkowskiDiff64(p0, q, cl)
			MinkowskiSumD(p0d, p0d, cl)
			return true
		})
		rc := NewRect64(coord(), coord(), coord(), coord())
		run("RectClip*", []interface{}{rc, s}, func() bool {
			RectClipPaths64(rc, s)
			RectClipLinesPaths64(rc, s)
			RectClipPath64(rc, p0)
			RectClipLinesPath64(rc, p0)
			RectClipPathsD(NewRectD(float64(rc.left)/100, float64(rc.top)/100, float64(rc.right)/100, float64(rc.bottom)/100), sd)
			RectClipLinesPathsD(NewRectD(float64(rc.left)/100, float64(rc.top)/100, float64(rc.right)/100, float64(rc.bottom)/100), sd)
			return true
		})
		eps := []float64{0, 0.5, 2, 1e9}[rng.Intn(4)]
		run("path utilities", []interface{}{p0, eps}, func() bool {
			TrimCollinear64(p0, cl)
			TrimCollinearD(p0d, 2, cl)
			SimplifyPath64(p0, eps, cl)
			SimplifyPaths64(s, eps, cl)
			SimplifyPathD(p0d, eps, cl)
			SimplifyPathsD(sd, eps, cl)
			Area64(p0)
			AreaPaths64(s)
			AreaD(p0d)
			AreaPathsD(sd)
			IsPositive64(p0)
			IsPositiveD(p0d)
			GetBounds64(p0)
			StripDuplicates(p0, cl)
			ReversePath(p0)
			PointInPolygon(Point64{coord(), coord()}, p0)
			Path2ContainsPath1(p0, p0)
			TranslatePath64(p0, coord(), coord())
			TranslatePaths64(s, coord(), coord())
			OffsetPath(p0, 1, 1)
			ScalePath64(p0, 0)
			ScalePathD(p0d, 0)
			ScalePathsDToPaths64(sd, 0)
			ScalePaths64ToPathsD(s, 0)
			PathsDToPaths64(sd)
			Paths64ToPathsD(s)
			Ellipse64(Point64{coord(), coord()}, float64(rng.Intn(5)), float64(rng.Intn(5)), rng.Intn(9)-2)
			EllipseD(PointD{1, 1}, float64(rng.Intn(5)), 0, rng.Intn(9)-2)
			MakePath64(1, 2, 3)
			MakePathD(1, 2, 3)
			return true
		})
	}
	for _, w := range []string{"no-panic", "terminates", "execute-succeeds"} {
		fmt.Printf("VERIF-BOUNDED Total.%s cases=%d failures=%d\n", w, cases, fails[w])
	}
}
