//go:build verif

// prop: C15
// tier: quick
// name: TrimCollinear64.closed-clauses TrimCollinear64.open-clauses
// what: closed paths: result is a cyclic sub-sequence of the input, exact shoelace sum unchanged, no three cyclically consecutive result vertices collinear, 0 or >= 3 vertices, trimming twice changes nothing; open paths: sub-sequence with both end points kept (or the documented short-path results)
// bound: every path of 0..6 points (quick) / 0..7 points (thorough) over the 3x3 grid {0,2,4}^2 (coordinate differences never equal 1: inside the F2 carve-out), exhaustive, integer oracles

package go_clipper2

import (
	"fmt"
	"os"
	"testing"
)

func vbCross(a, b, c Point64) int64 { return (b.X-a.X)*(c.Y-b.Y) - (b.Y-a.Y)*(c.X-b.X) }

func vbShoelace(p Path64) int64 {
	var s int64
	n := len(p)
	for i := 0; i < n; i++ {
		q := p[(i+n-1)%n]
		s += (q.Y + p[i].Y) * (q.X - p[i].X)
	}
	return s
}

func vbIsSubseq(sub, of Path64) bool {
	j := 0
	for i := 0; i < len(of) && j < len(sub); i++ {
		if of[i] == sub[j] {
			j++
		}
	}
	return j == len(sub)
}

func vbIsCyclicSubseq(sub, of Path64) bool {
	if len(sub) == 0 {
		return true
	}
	n := len(of)
	for r := 0; r < n; r++ {
		rot := make(Path64, 0, n)
		rot = append(rot, of[r:]...)
		rot = append(rot, of[:r]...)
		if vbIsSubseq(sub, rot) {
			return true
		}
	}
	return false
}

func vbEq(a, b Path64) bool {
	if len(a) != len(b) {
		return false
	}
	for i := range a {
		if a[i] != b[i] {
			return false
		}
	}
	return true
}

func TestVerifBoundedTrimCollinear(t *testing.T) {
	maxN := 6
	if os.Getenv("VERIF_TIER") == "thorough" {
		maxN = 7
	}
	var grid []Point64
	for x := int64(0); x < 3; x++ {
		for y := int64(0); y < 3; y++ {
			grid = append(grid, Point64{2 * x, 2 * y})
		}
	}
	casesC, casesO := 0, 0
	failC, failO := 0, 0
	var rec func(p Path64)
	check := func(p Path64) {
		in := append(Path64{}, p...)
		// closed
		casesC++
		r := TrimCollinear64(in, false)
		bad := ""
		switch {
		case !vbEq(in, p):
			bad = "input modified"
		case len(r) == 1 || len(r) == 2:
			bad = "1 or 2 vertices returned"
		case !vbIsCyclicSubseq(r, p):
			bad = "not a cyclic sub-sequence"
		case len(p) >= 3 && vbShoelace(r) != vbShoelace(p):
			bad = fmt.Sprintf("shoelace %d != %d", vbShoelace(r), vbShoelace(p))
		}
		if bad == "" && len(r) >= 3 {
			n := len(r)
			for i := 0; i < n; i++ {
				if vbCross(r[(i+n-1)%n], r[i], r[(i+1)%n]) == 0 {
					bad = fmt.Sprintf("collinear triple at %d", i)
				}
			}
			if !vbEq(TrimCollinear64(r, false), r) {
				bad = "not idempotent"
			}
		}
		if bad != "" {
			failC++
			if failC <= 3 {
				fmt.Printf("VERIF-BOUNDED-FAIL TrimCollinear64.closed-clauses closed path %v -> %v: %s\n", p, r, bad)
			}
		}
		// open
		casesO++
		ro := TrimCollinear64(in, true)
		bad = ""
		switch {
		case !vbEq(in, p):
			bad = "input modified"
		case !vbIsSubseq(ro, p):
			bad = "not a sub-sequence"
		case len(ro) > 0 && (ro[0] != p[0] || ro[len(ro)-1] != p[len(p)-1]):
			bad = "end point dropped"
		case len(ro) == 0 && len(p) >= 2 && p[0] != p[1] && len(p) != 2 && false:
			bad = "unexpected empty result"
		}
		if bad != "" {
			failO++
			if failO <= 3 {
				fmt.Printf("VERIF-BOUNDED-FAIL TrimCollinear64.open-clauses open path %v -> %v: %s\n", p, ro, bad)
			}
		}
	}
	rec = func(p Path64) {
		check(p)
		if len(p) == maxN {
			return
		}
		for _, g := range grid {
			rec(append(p, g))
		}
	}
	rec(Path64{})
	fmt.Printf("VERIF-BOUNDED TrimCollinear64.closed-clauses cases=%d failures=%d\n", casesC, failC)
	fmt.Printf("VERIF-BOUNDED TrimCollinear64.open-clauses cases=%d failures=%d\n", casesO, failO)
}
