//go:build verif

// prop: C14
// tier: quick
// name: PointInPolygon.classification
// what: PointInPolygon returns IsOn / IsInside / IsOutside exactly as an exact-integer even-odd crossing oracle with on-segment detection dictates, for every polygon not contained in one horizontal line
// bound: every polygon of 3..4 vertices (quick) / 3..5 vertices (thorough) over the 4x4 grid {0..3}^2 x every grid point, unscaled and mapped by p -> 2^27*p - 2^28 (magnitudes up to 2^28.6, exercising the float64 detour of CrossProduct), exhaustive

package go_clipper2

import (
	"fmt"
	"os"
	"testing"
)

func vbOnSeg(p, a, b Point64) bool {
	if (b.X-a.X)*(p.Y-a.Y)-(b.Y-a.Y)*(p.X-a.X) != 0 {
		return false
	}
	return min(a.X, b.X) <= p.X && p.X <= max(a.X, b.X) && min(a.Y, b.Y) <= p.Y && p.Y <= max(a.Y, b.Y)
}

// exact even-odd classification
func vbPipOracle(pt Point64, poly Path64) PointInPolygonResult {
	n := len(poly)
	for i := 0; i < n; i++ {
		if vbOnSeg(pt, poly[i], poly[(i+1)%n]) {
			return IsOn
		}
	}
	inside := false
	for i := 0; i < n; i++ {
		a, b := poly[i], poly[(i+1)%n]
		if (a.Y > pt.Y) != (b.Y > pt.Y) {
			// x coordinate of the crossing compared with pt.X, exactly: sign of (b.X-a.X)*(pt.Y-a.Y) - (pt.X-a.X)*(b.Y-a.Y)
			lhs := (b.X-a.X)*(pt.Y-a.Y) - (pt.X-a.X)*(b.Y-a.Y)
			if b.Y-a.Y < 0 {
				lhs = -lhs
			}
			if lhs > 0 {
				inside = !inside
			}
		}
	}
	if inside {
		return IsInside
	}
	return IsOutside
}

func TestVerifBoundedPointInPolygon(t *testing.T) {
	maxN := 4
	if os.Getenv("VERIF_TIER") == "thorough" {
		maxN = 5
	}
	var grid []Point64
	for x := int64(0); x < 4; x++ {
		for y := int64(0); y < 4; y++ {
			grid = append(grid, Point64{x, y})
		}
	}
	scale := func(p Point64) Point64 { return Point64{p.X<<27 - 1<<28, p.Y<<27 - 1<<28} }
	cases, fails := 0, 0
	var rec func(p Path64)
	rec = func(p Path64) {
		if len(p) >= 3 {
			flat := true
			for _, q := range p {
				if q.Y != p[0].Y {
					flat = false
				}
			}
			if !flat {
				sp := make(Path64, len(p))
				for i, q := range p {
					sp[i] = scale(q)
				}
				for _, g := range grid {
					cases += 2
					if got, want := PointInPolygon(g, p), vbPipOracle(g, p); got != want {
						fails++
						if fails <= 3 {
							fmt.Printf("VERIF-BOUNDED-FAIL PointInPolygon.classification pt %v polygon %v: got %d want %d\n", g, p, got, want)
						}
					}
					sg := scale(g)
					if got, want := PointInPolygon(sg, sp), vbPipOracle(sg, sp); got != want {
						fails++
						if fails <= 3 {
							fmt.Printf("VERIF-BOUNDED-FAIL PointInPolygon.classification pt %v polygon %v: got %d want %d\n", sg, sp, got, want)
						}
					}
				}
			}
		}
		if len(p) == maxN {
			return
		}
		for _, g := range grid {
			rec(append(append(Path64{}, p...), g))
		}
	}
	rec(Path64{})
	fmt.Printf("VERIF-BOUNDED PointInPolygon.classification cases=%d failures=%d\n", cases, fails)
}
