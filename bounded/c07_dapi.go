//go:build verif

// prop: C07
// tier: quick
// name: FloatAPI.boolean FloatAPI.polytree FloatAPI.inflate FloatAPI.minkowski FloatAPI.rectclip FloatAPI.rectclip-fractional-bounds FloatAPI.trim
// what: each floating-point entry point returns exactly (all coordinates equal as float64) the result of its 64-bit counterpart applied to the input coordinates multiplied by 10^p and rounded to the nearest integer, divided by 10^p again; scalar parameters (delta) are multiplied by 10^p and rectangle bounds are quantised like coordinates (rectclip uses bounds that need no rounding; rectclip-fractional-bounds uses arbitrary bounds and carries known finding F8, ScaleRectD truncates); boolean and polytree run at precisions 1..3 only (precision 0 means 2 for the engine constructor: known finding F17, carried by a proof obligation)
// bound: 800 (quick) / 30000 (thorough) pseudo-random inputs with coordinates k/1000 in [0,40] (ties after scaling excluded), precisions 0..3, seeded by VERIF_SEED; quantisation oracle: math.Round of the scaled value computed in exact integer arithmetic
// sampled: FloatAPI.boolean FloatAPI.polytree FloatAPI.inflate FloatAPI.minkowski FloatAPI.rectclip FloatAPI.rectclip-fractional-bounds FloatAPI.trim

package go_clipper2

import (
	"fmt"
	"math/rand"
	"os"
	"strconv"
	"testing"
)

type v7pt struct{ kx, ky int64 } // coordinates in thousandths

func TestVerifBoundedFloatAPI(t *testing.T) {
	n := 800
	if os.Getenv("VERIF_TIER") == "thorough" {
		n = 30000
	}
	seed, _ := strconv.Atoi(os.Getenv("VERIF_SEED"))
	rng := rand.New(rand.NewSource(int64(seed) + 707))
	cases := map[string]int{}
	fails := map[string]int{}
	report := func(which string, p int, in interface{}, why string) {
		fails[which]++
		if fails[which] <= 3 {
			fmt.Printf("VERIF-BOUNDED-FAIL FloatAPI.%s precision %d input %v: %s\n", which, p, in, why)
		}
	}
	pow10 := []int64{1, 10, 100, 1000}
	var prec int
	// quantise k/1000 at precision p: nearest integer to k*10^p/1000 (ties never occur by construction)
	q := func(k int64) int64 {
		num := k * pow10[prec]
		f := num / 1000
		r := num % 1000
		if r > 500 {
			f++
		}
		return f
	}
	coord := func() int64 {
		for {
			k := int64(rng.Intn(40001))
			if rng.Intn(3) == 0 {
				k = k / 250 * 250 // often on a coarse grid, so that shapes touch and overlap
			}
			tie := false
			for _, s := range pow10 {
				if (k*s)%1000 == 500 {
					tie = true
				}
			}
			if !tie {
				return k
			}
		}
	}
	mk := func(nv int) ([]v7pt, PathD) {
		ks := make([]v7pt, nv)
		pd := make(PathD, nv)
		for i := range ks {
			ks[i] = v7pt{coord(), coord()}
			pd[i] = PointD{float64(ks[i].kx) / 1000, float64(ks[i].ky) / 1000}
		}
		return ks, pd
	}
	q64 := func(ks []v7pt) Path64 {
		out := make(Path64, len(ks))
		for i, k := range ks {
			out[i] = Point64{q(k.kx), q(k.ky)}
		}
		return out
	}
	back := func(pp Paths64) PathsD {
		out := make(PathsD, len(pp))
		sc := float64(pow10[prec])
		for i, p := range pp {
			out[i] = make(PathD, len(p))
			for j, v := range p {
				out[i][j] = PointD{float64(v.X) / sc, float64(v.Y) / sc}
			}
		}
		return out
	}
	same := func(a, b PathsD) bool { return fmt.Sprint(a) == fmt.Sprint(b) }
	for it := 0; it < n; it++ {
		prec = rng.Intn(4)
		var sk, ck [][]v7pt
		var sd, cd PathsD
		for k := 1 + rng.Intn(2); k > 0; k-- {
			a, b := mk(3 + rng.Intn(4))
			sk, sd = append(sk, a), append(sd, b)
		}
		for k := rng.Intn(3); k > 0; k-- {
			a, b := mk(3 + rng.Intn(4))
			ck, cd = append(ck, a), append(cd, b)
		}
		var s64, c64 Paths64
		for _, a := range sk {
			s64 = append(s64, q64(a))
		}
		for _, a := range ck {
			c64 = append(c64, q64(a))
		}
		ct := []ClipType{Intersection, Union, Difference, Xor}[rng.Intn(4)]
		if prec == 0 {
			prec = 1 + rng.Intn(3)
			s64, c64 = nil, nil
			for _, a := range sk {
				s64 = append(s64, q64(a))
			}
			for _, a := range ck {
				c64 = append(c64, q64(a))
			}
		}
		fr := []FillRule{EvenOdd, NonZero, Positive, Negative}[rng.Intn(4)]
		cases["boolean"]++
		if got, want := BooleanOpPathsD(ct, sd, cd, fr, prec), back(BooleanOpPaths64(ct, s64, c64, fr)); !same(got, want) {
			report("boolean", prec, []interface{}{ct, fr, sd, cd}, fmt.Sprintf("got %v want %v", got, want))
		}
		cases["polytree"]++
		{
			td := BooleanOpPolyTreeD(ct, sd, cd, fr, prec)
			t64 := BooleanOpPolyTree64(ct, s64, c64, fr)
			var a, b []*PolyPathBase
			var walk func(n *PolyPathBase, out *[]*PolyPathBase)
			walk = func(n *PolyPathBase, out *[]*PolyPathBase) {
				for _, c := range n.GetChildren() {
					*out = append(*out, c)
					walk(c, out)
				}
			}
			walk(td.PolyPathBase, &a)
			walk(t64.PolyPathBase, &b)
			ok := len(a) == len(b)
			for i := 0; ok && i < len(a); i++ {
				if a[i].Level() != b[i].Level() || fmt.Sprint(a[i].Polygon()) != fmt.Sprint(b[i].Polygon()) {
					ok = false
				}
			}
			if !ok {
				report("polytree", prec, []interface{}{ct, fr, sd, cd}, "tree of the floating-point call differs from the tree of the quantised 64-bit call (polygons are stored scaled)")
			}
		}
		cases["inflate"]++
		{
			delta := float64(int64(rng.Intn(8000))-3000) / 1000
			jt := []JoinType{Miter, Square, Bevel, Round}[rng.Intn(4)]
			got := InflatePathsD(sd, delta, jt, Polygon, WithPrecision(prec))
			want := back(InflatePaths64(s64, delta*float64(pow10[prec]), jt, Polygon))
			if !same(got, want) {
				report("inflate", prec, []interface{}{sd, delta, jt}, fmt.Sprintf("got %v want %v", got, want))
			}
		}
		cases["inflate"]++
		{
			// options: the arc tolerance is a length (scaled by 10^p), the miter limit is a ratio (not scaled); the
			// expectation builds the 64-bit offsetter directly, without going through the option functions
			delta := float64(1000+rng.Intn(4000)) / 1000
			tol := float64(1+rng.Intn(9)) / 1000
			ml := 1.5 + float64(rng.Intn(30))/10
			jt := []JoinType{Round, Miter}[rng.Intn(2)]
			got := InflatePathsD(sd, delta, jt, Polygon, WithPrecision(prec), WithArcTolerance(tol), WithMitterLimit(ml))
			co := NewClipperOffset(ml, tol*float64(pow10[prec]), false, false)
			co.AddPaths(s64, jt, Polygon)
			w64 := make(Paths64, 0)
			co.Execute64(delta*float64(pow10[prec]), &w64)
			if want := back(w64); !same(got, want) {
				report("inflate", prec, []interface{}{sd, delta, jt, "arc tolerance", tol, "miter limit", ml}, fmt.Sprintf("got %d paths want %d paths", len(got), len(want)))
			}
		}
		cases["minkowski"]++
		{
			closed := rng.Intn(2) == 0
			got := MinkowskiSumD(sd[0], sd[len(sd)-1], closed, prec)
			want := back(MinkowskiSum64(s64[0], s64[len(s64)-1], closed))
			got2 := MinkowskiDiffD(sd[0], sd[len(sd)-1], closed, prec)
			want2 := back(MinkowskiDiff64(s64[0], s64[len(s64)-1], closed))
			if !same(got, want) || !same(got2, want2) {
				report("minkowski", prec, []interface{}{sd[0], sd[len(sd)-1], closed}, fmt.Sprintf("sum got %v want %v; diff got %v want %v", got, want, got2, want2))
			}
		}
		for _, which := range []string{"rectclip", "rectclip-fractional-bounds"} {
			cases[which]++
			l, tt, r, b := coord(), coord(), coord(), coord()
			if which == "rectclip" {
				l, tt, r, b = l/1000*1000, tt/1000*1000, r/1000*1000, b/1000*1000
			}
			if l > r {
				l, r = r, l
			}
			if tt > b {
				tt, b = b, tt
			}
			rd := NewRectD(float64(l)/1000, float64(tt)/1000, float64(r)/1000, float64(b)/1000)
			r64 := NewRect64(q(l), q(tt), q(r), q(b))
			got := RectClipPathsD(rd, sd, prec)
			want := back(RectClipPaths64(r64, s64))
			got2 := RectClipLinesPathsD(rd, sd, prec)
			want2 := back(RectClipLinesPaths64(r64, s64))
			if !same(got, want) || !same(got2, want2) {
				report(which, prec, []interface{}{rd, sd}, fmt.Sprintf("polygons got %v want %v; lines got %v want %v", got, want, got2, want2))
			}
		}
		cases["trim"]++
		{
			open := rng.Intn(2) == 0
			got := TrimCollinearD(sd[0], prec, open)
			want := back(Paths64{TrimCollinear64(s64[0], open)})[0]
			if fmt.Sprint(got) != fmt.Sprint(want) {
				report("trim", prec, []interface{}{sd[0], open}, fmt.Sprintf("got %v want %v", got, want))
			}
		}
	}
	for _, w := range []string{"boolean", "polytree", "inflate", "minkowski", "rectclip", "rectclip-fractional-bounds", "trim"} {
		fmt.Printf("VERIF-BOUNDED FloatAPI.%s cases=%d failures=%d\n", w, cases[w], fails[w])
	}
}
