//go:build verif

// prop: C13
// tier: quick
// name: Magnitude.translation Magnitude.scaling Magnitude.scaling-beyond-2^31 Magnitude.other-operations Magnitude.other-operations-beyond-2^31
// what: (translation) translating every input coordinate of a boolean operation by the same integer vector with magnitudes up to 2^52 translates the solution region (non-zero winding at the translated lattice points that are more than 2 units from every input edge); (scaling) multiplying every coordinate by the same integer factor up to 2^24 (coordinates then stay below 2^30, where every 64-bit product is exact) scales the region; (scaling-beyond-2^31) the same for the factors 2^35, 2^50 and 2^55 (coordinates up to 2^60.4, inside the advertised MaxCoord of 2^61), where the 64-bit products of coordinate differences no longer fit and the library switches to floating-point products; the oracle divides the result by the factor in float64; (other-operations) under the same translations and the factors 2^10, 2^24: Area64 is unchanged by translation and multiplied by the square of the factor, IsPositive64 and PointInPolygon give the same answer, SimplifyPath64 keeps the same vertices (epsilon scaled), RectClipPaths64 and InflatePaths64 (Round joins, delta scaled) return regions whose total area is translated / scaled accordingly (relative tolerance 1e-6 plus, for the two clipped regions, 1.5 square units per unit of perimeter at the original scale, since the original result is itself rounded to integers); (other-operations-beyond-2^31) the same with the factors 2^35 and 2^50
// bound: 1000 (quick) / 40000 (thorough) pseudo-random inputs (1-2 subject and 0-2 clip polygons of 3-6 vertices on the grid {0,4,..,40}^2, seeded by VERIF_SEED) x 4 clip types x NonZero / EvenOdd / Positive, each with 3 translation vectors (one of magnitude about 2^20, 2^40 and 2^52 - 2^20) and the factors 2^10, 2^24, 2^35, 2^50, 2^55
// sampled: Magnitude.translation Magnitude.scaling Magnitude.scaling-beyond-2^31 Magnitude.other-operations Magnitude.other-operations-beyond-2^31

package go_clipper2

import (
	"fmt"
	"math"
	"math/rand"
	"os"
	"strconv"
	"testing"
)

func v13Copy(pp Paths64, f func(Point64) Point64) Paths64 {
	if pp == nil {
		return nil
	}
	out := make(Paths64, len(pp))
	for i := range pp {
		out[i] = make(Path64, len(pp[i]))
		for j := range pp[i] {
			out[i][j] = f(pp[i][j])
		}
	}
	return out
}

func TestVerifBoundedMagnitude(t *testing.T) {
	n := 1000
	if os.Getenv("VERIF_TIER") == "thorough" {
		n = 40000
	}
	seed, _ := strconv.Atoi(os.Getenv("VERIF_SEED"))
	rng := rand.New(rand.NewSource(int64(seed) + 1313))
	var samples []Point64
	for x := int64(-2); x <= 42; x += 4 {
		for y := int64(-2); y <= 42; y += 4 {
			samples = append(samples, Point64{x, y})
		}
	}
	cases := map[string]int{}
	fails := map[string]int{}
	report := func(which string, ct ClipType, fr FillRule, subj, clip Paths64, why string) {
		fails[which]++
		if fails[which] <= 3 {
			fmt.Printf("VERIF-BOUNDED-FAIL Magnitude.%s cliptype %v fillrule %v subject %v clip %v: %s\n", which, ct, fr, subj, clip, why)
		}
	}
	randPoly := func() Path64 {
		p := make(Path64, 3+rng.Intn(4))
		for i := range p {
			p[i] = Point64{int64(rng.Intn(11)) * 4, int64(rng.Intn(11)) * 4}
		}
		return p
	}
	id := func(p Point64) Point64 { return p }
	for it := 0; it < n; it++ {
		subj := Paths64{randPoly()}
		if rng.Intn(2) == 0 {
			subj = append(subj, randPoly())
		}
		var clip Paths64
		for k := rng.Intn(3); k > 0; k-- {
			clip = append(clip, randPoly())
		}
		all := append(v13Copy(subj, id), clip...)
		var far []Point64
		for _, s := range samples {
			if vcFarFromAll(s, all) {
				far = append(far, s)
			}
		}
		sgn := func() int64 { return int64(rng.Intn(2)*2 - 1) }
		vecs := []Point64{
			{sgn() * (1<<20 + int64(rng.Intn(1000))), sgn() * (1<<20 - int64(rng.Intn(1000)))},
			{sgn() * (1<<40 + int64(rng.Intn(1000))), sgn() * int64(rng.Intn(1<<20))},
			{sgn() * (1<<52 - 1<<20 - int64(rng.Intn(1000))), sgn() * (1<<52 - 1<<20 - int64(rng.Intn(1000)))},
		}
		for _, ct := range []ClipType{Intersection, Union, Difference, Xor} {
			for _, fr := range []FillRule{NonZero, EvenOdd, Positive} {
				base := BooleanOpPaths64(ct, v13Copy(subj, id), v13Copy(clip, id), fr)
				cases["translation"]++
				bad := ""
				for _, v := range vecs {
					tr := func(p Point64) Point64 { return Point64{p.X + v.X, p.Y + v.Y} }
					res := BooleanOpPaths64(ct, v13Copy(subj, tr), v13Copy(clip, tr), fr)
					for _, s := range far {
						if (vcWindAll(s, base) != 0) != (vcWindAll(tr(s), res) != 0) && bad == "" {
							bad = fmt.Sprintf("translated by %v: at %v inside=%v, at the translated point %v", v, s, vcWindAll(s, base) != 0, vcWindAll(tr(s), res) != 0)
						}
					}
				}
				if bad != "" {
					report("translation", ct, fr, subj, clip, bad)
				}
				cases["scaling"]++
				bad = ""
				for _, k := range []int64{1 << 10, 1 << 24} {
					sc := func(p Point64) Point64 { return Point64{p.X * k, p.Y * k} }
					res := BooleanOpPaths64(ct, v13Copy(subj, sc), v13Copy(clip, sc), fr)
					for _, s := range far {
						if (vcWindAll(s, base) != 0) != (vcWindAll(sc(s), res) != 0) && bad == "" {
							bad = fmt.Sprintf("scaled by %d: at %v inside=%v, at the scaled point %v", k, s, vcWindAll(s, base) != 0, vcWindAll(sc(s), res) != 0)
						}
					}
				}
				if bad != "" {
					report("scaling", ct, fr, subj, clip, bad)
				}
				cases["scaling-beyond-2^31"]++
				bad = ""
				for _, k := range []int64{1 << 35, 1 << 50, 1 << 55} {
					sc := func(p Point64) Point64 { return Point64{p.X * k, p.Y * k} }
					res := BooleanOpPaths64(ct, v13Copy(subj, sc), v13Copy(clip, sc), fr)
					for _, s := range far {
						if (vcWindAll(s, base) != 0) != (v13WindScaled(s, res, k) != 0) && bad == "" {
							bad = fmt.Sprintf("scaled by 2^%d: at %v inside=%v, at the scaled point %v", map[int64]int{1 << 35: 35, 1 << 50: 50, 1 << 55: 55}[k], s, vcWindAll(s, base) != 0, v13WindScaled(s, res, k) != 0)
						}
					}
				}
				if bad != "" {
					report("scaling-beyond-2^31", ct, fr, subj, clip, bad)
				}
			}
		}
	}
	// other operations on translated / scaled copies of one polygon
	areaSum := func(pp Paths64) float64 {
		a := 0.0
		for _, p := range pp {
			a += Area64(p)
		}
		return a
	}
	perim := func(p Path64) float64 {
		l := 0.0
		for i := range p {
			q := p[(i+1)%len(p)]
			l += math.Hypot(float64(q.X-p[i].X), float64(q.Y-p[i].Y))
		}
		return l
	}
	close := func(a, b, slack float64) bool { return math.Abs(a-b) <= slack+1e-6*math.Max(math.Abs(a), math.Abs(b)) }
	for it := 0; it < n; it++ {
		p := randPoly()
		pt := Point64{int64(rng.Intn(11)) * 4, int64(rng.Intn(11)) * 4}
		rect := NewRect64(8, 8, 28, 32)
		a0, pos0, pip0 := Area64(p), IsPositive64(p), PointInPolygon(pt, p)
		simp0 := SimplifyPath64(append(Path64{}, p...), 3, true)
		rc0 := areaSum(RectClipPaths64(rect, Paths64{append(Path64{}, p...)}))
		inf0 := areaSum(InflatePaths64(Paths64{append(Path64{}, p...)}, 3, Round, Polygon))
		per := perim(p)
		check := func(which, name string, f func(Point64) Point64, k float64) {
			cases[which]++
			q := v13Copy(Paths64{p}, f)[0]
			bad := ""
			if !close(Area64(q), a0*k*k, 0) {
				bad = fmt.Sprintf("Area64 %v, expected %v", Area64(q), a0*k*k)
			} else if a0 != 0 && IsPositive64(q) != pos0 {
				bad = "IsPositive64 differs"
			} else if PointInPolygon(f(pt), q) != pip0 {
				bad = fmt.Sprintf("PointInPolygon %v, expected %v", PointInPolygon(f(pt), q), pip0)
			} else if s2 := SimplifyPath64(append(Path64{}, q...), 3*k, true); fmt.Sprint(s2) != fmt.Sprint(v13Copy(Paths64{simp0}, f)[0]) {
				bad = fmt.Sprintf("SimplifyPath64 keeps %v, expected %v", s2, v13Copy(Paths64{simp0}, f)[0])
			} else {
				lo, hi := f(Point64{8, 8}), f(Point64{28, 32})
				r2 := NewRect64(lo.X, lo.Y, hi.X, hi.Y)
				if got := areaSum(RectClipPaths64(r2, Paths64{append(Path64{}, q...)})); !close(got, rc0*k*k, 1.5*k*k*(per+80)) {
					bad = fmt.Sprintf("RectClipPaths64 area %v, expected %v", got, rc0*k*k)
				} else if got := areaSum(InflatePaths64(Paths64{append(Path64{}, q...)}, 3*k, Round, Polygon)); !close(got, inf0*k*k, 1.5*k*k*(per+40)+1e-3*math.Abs(inf0)*k*k) {
					bad = fmt.Sprintf("InflatePaths64 area %v, expected %v", got, inf0*k*k)
				}
			}
			if bad != "" {
				report(which, 0, 0, Paths64{p}, nil, name+": "+bad)
			}
		}
		sgn := func() int64 { return int64(rng.Intn(2)*2 - 1) }
		v1 := Point64{sgn() * (1<<40 + int64(rng.Intn(1000))), sgn() * int64(rng.Intn(1<<20))}
		v2 := Point64{sgn() * (1<<52 - 1<<20), sgn() * (1<<52 - 1<<20)}
		check("other-operations", fmt.Sprint("translated by ", v1), func(q Point64) Point64 { return Point64{q.X + v1.X, q.Y + v1.Y} }, 1)
		check("other-operations", fmt.Sprint("translated by ", v2), func(q Point64) Point64 { return Point64{q.X + v2.X, q.Y + v2.Y} }, 1)
		for _, e := range []uint{10, 24} {
			k := int64(1) << e
			check("other-operations", fmt.Sprint("scaled by 2^", e), func(q Point64) Point64 { return Point64{q.X * k, q.Y * k} }, float64(k))
		}
		for _, e := range []uint{35, 50} {
			k := int64(1) << e
			check("other-operations-beyond-2^31", fmt.Sprint("scaled by 2^", e), func(q Point64) Point64 { return Point64{q.X * k, q.Y * k} }, float64(k))
		}
	}
	for _, w := range []string{"translation", "scaling", "scaling-beyond-2^31", "other-operations", "other-operations-beyond-2^31"} {
		fmt.Printf("VERIF-BOUNDED Magnitude.%s cases=%d failures=%d\n", w, cases[w], fails[w])
	}
}

// v13WindScaled: winding number of the point k*s with respect to paths whose coordinates are about k
// times the lattice, evaluated on the coordinates divided by k in float64 (the lattice points are more
// than 2 units from every input edge, so the rounding of the division cannot change the answer)
func v13WindScaled(s Point64, pp Paths64, k int64) int {
	w := 0
	for _, p := range pp {
		n := len(p)
		for i := 0; i < n; i++ {
			a, b := p[i], p[(i+1)%n]
			ax, ay, bx, by := float64(a.X)/float64(k), float64(a.Y)/float64(k), float64(b.X)/float64(k), float64(b.Y)/float64(k)
			px, py := float64(s.X), float64(s.Y)
			if ay <= py {
				if by > py && (bx-ax)*(py-ay)-(px-ax)*(by-ay) > 0 {
					w++
				}
			} else if by <= py && (bx-ax)*(py-ay)-(px-ax)*(by-ay) < 0 {
				w--
			}
		}
	}
	return w
}
