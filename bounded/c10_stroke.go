//go:build verif

// prop: C10
// tier: quick
// name: Stroke.covers-the-line Stroke.within-k-delta Stroke.single-point Stroke.end-caps
// what: for open polylines without sharp reversals (turning angle at most 120 degrees) and delta >= 2: (covers-the-line) for Joined polylines of three and more points, every point at distance up to delta-3 from a segment's midpoint along either normal is inside the result; (within-k-delta) no lattice point farther than k*delta+3 from the polyline is inside the result (k = 1 Round/Bevel joins, sqrt 2 Square, 2 Miter; sqrt 2 at least with Square ends); (single-point) a single point with Round ends becomes a disc and with the other end types a square of half-width delta (lattice points nearer than delta-3 inside, farther than sqrt2*delta+3 outside); (end-caps) the same coverage clause for Butt, Square and Round ends and for two-point Joined paths - carried by known finding F12: no end cap is ever built, so these strokes taper to their end points (a two-point stroke is empty)
// bound: 1200 (quick) / 30000 (thorough) pseudo-random polylines of 2-5 points on {0,8,..,64}^2, seeded by VERIF_SEED, x 4 end types x 4 join types x deltas {2, 4, 7}; lattice step 3
// sampled: Stroke.covers-the-line Stroke.within-k-delta Stroke.single-point Stroke.end-caps

package go_clipper2

import (
	"fmt"
	"math"
	"math/rand"
	"os"
	"strconv"
	"testing"
)

func v10DistPolyline(px, py float64, p Path64, closed bool) float64 {
	d := math.Inf(1)
	n := len(p)
	last := n - 1
	if closed {
		last = n
	}
	if n == 1 {
		return math.Hypot(px-float64(p[0].X), py-float64(p[0].Y))
	}
	for i := 0; i < last; i++ {
		a, b := p[i], p[(i+1)%n]
		ax, ay, bx, by := float64(a.X), float64(a.Y), float64(b.X), float64(b.Y)
		dx, dy := bx-ax, by-ay
		l2 := dx*dx + dy*dy
		t := 0.0
		if l2 > 0 {
			t = math.Max(0, math.Min(1, ((px-ax)*dx+(py-ay)*dy)/l2))
		}
		d = math.Min(d, math.Hypot(px-(ax+t*dx), py-(ay+t*dy)))
	}
	return d
}

func TestVerifBoundedStroke(t *testing.T) {
	n := 1200
	if os.Getenv("VERIF_TIER") == "thorough" {
		n = 30000
	}
	seed, _ := strconv.Atoi(os.Getenv("VERIF_SEED"))
	rng := rand.New(rand.NewSource(int64(seed) + 1010))
	cases := map[string]int{}
	fails := map[string]int{}
	report := func(which string, p Path64, delta float64, jt JoinType, et EndType, out Paths64, why string) {
		fails[which]++
		if fails[which] <= 3 {
			fmt.Printf("VERIF-BOUNDED-FAIL Stroke.%s path %v delta %v join %v end %v -> %v: %s\n", which, p, delta, jt, et, out, why)
		}
	}
	const tol = 3.0
	for it := 0; it < n; it++ {
		var p Path64
		for tries := 0; tries < 50; tries++ {
			p = make(Path64, 1+rng.Intn(5))
			for i := range p {
				p[i] = Point64{int64(rng.Intn(9)) * 8, int64(rng.Intn(9)) * 8}
			}
			ok := true
			for i := 0; i+1 < len(p); i++ {
				if p[i] == p[i+1] {
					ok = false
				}
			}
			for i := 1; i+1 < len(p) && ok; i++ { // no sharp reversals: cos(turn) >= -0.5
				ux, uy := float64(p[i].X-p[i-1].X), float64(p[i].Y-p[i-1].Y)
				vx, vy := float64(p[i+1].X-p[i].X), float64(p[i+1].Y-p[i].Y)
				if (ux*vx+uy*vy)/(math.Hypot(ux, uy)*math.Hypot(vx, vy)) < -0.5 {
					ok = false
				}
			}
			if ok {
				break
			}
			p = nil
		}
		if p == nil {
			continue
		}
		for _, et := range []EndType{Joined, Butt, SquareET, RoundET} {
			for _, jt := range []JoinType{Round, Miter, Square, Bevel} {
				delta := []float64{2, 4, 7}[rng.Intn(3)]
				k := 1.0
				switch jt {
				case Square:
					k = math.Sqrt2
				case Miter:
					k = 2
				}
				if et == SquareET && k < math.Sqrt2 {
					k = math.Sqrt2
				}
				out := InflatePaths64(Paths64{append(Path64{}, p...)}, delta, jt, et)
				in := func(x, y float64) bool {
					return vcWindAll(Point64{int64(math.Round(x)), int64(math.Round(y))}, out) != 0
				}
				if len(p) == 1 {
					cases["single-point"]++
					bad := ""
					for x := p[0].X - 15; x <= p[0].X+15; x += 3 {
						for y := p[0].Y - 15; y <= p[0].Y+15; y += 3 {
							d := math.Hypot(float64(x-p[0].X), float64(y-p[0].Y))
							got := in(float64(x), float64(y))
							if d < delta-tol && !got {
								bad = fmt.Sprintf("point (%d,%d) at distance %.2f is not inside", x, y, d)
							}
							if d > math.Sqrt2*delta+tol && got {
								bad = fmt.Sprintf("point (%d,%d) at distance %.2f is inside", x, y, d)
							}
						}
					}
					if bad != "" {
						report("single-point", p, delta, jt, et, out, bad)
					}
					continue
				}
				closed := et == Joined && len(p) >= 3
				cases["within-k-delta"]++
				bad := ""
				for x := int64(-12); x <= 76; x += 3 {
					for y := int64(-12); y <= 76; y += 3 {
						if d := v10DistPolyline(float64(x), float64(y), p, closed); d > k*delta+tol && in(float64(x), float64(y)) {
							bad = fmt.Sprintf("point (%d,%d) at distance %.2f from the line is inside", x, y, d)
						}
					}
				}
				if bad != "" {
					report("within-k-delta", p, delta, jt, et, out, bad)
				}
				which := "covers-the-line"
				if et != Joined || len(p) == 2 {
					// Butt, Square and Round strokes taper to their end points because no cap is built (F12), and a
					// two-point Joined path is offset as such an open stroke
					which = "end-caps"
				}
				cases[which]++
				bad = ""
				if delta > tol {
					last := len(p) - 1
					if closed {
						last = len(p)
					}
					for i := 0; i < last; i++ {
						a, b := p[i], p[(i+1)%len(p)]
						if a == b {
							continue // explicit closing vertex
						}
						mx, my := float64(a.X+b.X)/2, float64(a.Y+b.Y)/2
						ex, ey := float64(b.X-a.X), float64(b.Y-a.Y)
						l := math.Hypot(ex, ey)
						for _, sgn := range []float64{1, -1} {
							for _, r := range []float64{0, delta - tol} {
								x, y := mx+sgn*r*ey/l, my-sgn*r*ex/l
								if !in(x, y) {
									bad = fmt.Sprintf("point (%.1f,%.1f), %.1f from the midpoint of %v-%v along its normal, is not inside", x, y, r, a, b)
								}
							}
						}
					}
				}
				if bad != "" {
					report(which, p, delta, jt, et, out, bad)
				}
			}
		}
	}
	for _, w := range []string{"covers-the-line", "within-k-delta", "single-point", "end-caps"} {
		fmt.Printf("VERIF-BOUNDED Stroke.%s cases=%d failures=%d\n", w, cases[w], fails[w])
	}
}
