//go:build verif

// prop: C06
// tier: quick
// name: RectClipPaths64.vertices-in-rect RectClipPaths64.fast-paths RectClipPaths64.winding RectClipPaths64.winding-larger RectClipPaths64.enclosing-winding
// what: every output vertex of RectClipPaths64 lies within the rectangle (at most 1 unit outside); at every sample point more than 2 units from the rectangle boundary and from every input edge the output winding number equals the input winding number inside the rectangle and is zero outside; paths inside are returned unchanged, paths outside vanish
// bound: every polygon of 3..4 vertices (quick) / 3..5 (thorough) over the 5x5 grid {0,8,..,32}^2 against the rectangles [8,24]^2, [4,20]x[12,28] and [0,32]x[8,16]; sample points on the lattice 4+8k in [-4,36]^2; exhaustive, exact integer winding oracle; plus (winding-larger / enclosing-winding, not exhaustive) 100000 (quick) / 2000000 (thorough) pseudo-random polygons of 5..10 vertices on the 11x11 grid {0,4,..,40}^2 against four rectangles, seeded by VERIF_SEED, the cases whose path never meets the rectangle boundary reported under enclosing-winding, together with 24 directed spirals that wind 1, 2 or 3 times around each rectangle
// sampled: RectClipPaths64.winding-larger RectClipPaths64.enclosing-winding

package go_clipper2

import (
	"fmt"
	"math/rand"
	"os"
	"strconv"
	"testing"
)

func vbWinding(pt Point64, poly Path64) int {
	w := 0
	n := len(poly)
	for i := 0; i < n; i++ {
		a, b := poly[i], poly[(i+1)%n]
		if a.Y <= pt.Y {
			if b.Y > pt.Y && (b.X-a.X)*(pt.Y-a.Y)-(pt.X-a.X)*(b.Y-a.Y) > 0 {
				w++
			}
		} else if b.Y <= pt.Y && (b.X-a.X)*(pt.Y-a.Y)-(pt.X-a.X)*(b.Y-a.Y) < 0 {
			w--
		}
	}
	return w
}

// squared distance from pt to segment ab is > 4 ?
func vbFarFromSeg(pt, a, b Point64) bool {
	dx, dy := b.X-a.X, b.Y-a.Y
	px, py := pt.X-a.X, pt.Y-a.Y
	l2 := dx*dx + dy*dy
	if l2 == 0 {
		return px*px+py*py > 4
	}
	t := px*dx + py*dy
	if t <= 0 {
		return px*px+py*py > 4
	}
	if t >= l2 {
		qx, qy := pt.X-b.X, pt.Y-b.Y
		return qx*qx+qy*qy > 4
	}
	cr := px*dy - py*dx
	return cr*cr > 4*l2
}

func TestVerifBoundedRectClip(t *testing.T) {
	maxN := 4
	if os.Getenv("VERIF_TIER") == "thorough" {
		maxN = 5
	}
	var grid []Point64
	for x := int64(0); x < 5; x++ {
		for y := int64(0); y < 5; y++ {
			grid = append(grid, Point64{8 * x, 8 * y})
		}
	}
	rects := []Rect64{{8, 8, 24, 24}, {4, 12, 20, 28}, {0, 8, 32, 16}}
	var samples []Point64
	for x := int64(-4); x <= 36; x += 8 {
		for y := int64(-4); y <= 36; y += 8 {
			samples = append(samples, Point64{x, y})
		}
	}
	cases := 0
	fails := map[string]int{}
	report := func(which string, r Rect64, p Path64, out Paths64, why string) {
		fails[which]++
		if fails[which] <= 3 {
			fmt.Printf("VERIF-BOUNDED-FAIL RectClipPaths64.%s rect %v path %v -> %v: %s\n", which, r, p, out, why)
		}
	}
	var rec func(p Path64)
	rec = func(p Path64) {
		if len(p) >= 3 {
			for _, r := range rects {
				cases++
				in := append(Path64{}, p...)
				out := RectClipPaths64(r, Paths64{in})
				bad := ""
				for _, q := range out {
					for _, v := range q {
						if v.X < r.left-1 || v.X > r.right+1 || v.Y < r.top-1 || v.Y > r.bottom+1 {
							bad = fmt.Sprintf("vertex %v outside the rectangle", v)
						}
					}
				}
				if bad != "" {
					report("vertices-in-rect", r, p, out, bad)
					bad = ""
				}
				allIn, beside := true, false
				l, rr, tt, bb := true, true, true, true
				for _, v := range p {
					if v.X < r.left || v.X > r.right || v.Y < r.top || v.Y > r.bottom {
						allIn = false
					}
					l = l && v.X < r.left
					rr = rr && v.X > r.right
					tt = tt && v.Y < r.top
					bb = bb && v.Y > r.bottom
				}
				beside = l || rr || tt || bb
				if bad == "" && allIn && (len(out) != 1 || fmt.Sprint(out[0]) != fmt.Sprint(p)) {
					bad = "path inside the rectangle not returned unchanged"
				}
				if bad == "" && beside && len(out) != 0 {
					bad = "path outside the rectangle did not vanish"
				}
				if bad != "" {
					report("fast-paths", r, p, out, bad)
					bad = ""
				}
				if bad == "" {
					rp := r.AsPath()
					for _, s := range samples {
						far := true
						for i := range p {
							if !vbFarFromSeg(s, p[i], p[(i+1)%len(p)]) {
								far = false
							}
						}
						for i := range rp {
							if !vbFarFromSeg(s, rp[i], rp[(i+1)%4]) {
								far = false
							}
						}
						if !far {
							continue
						}
						want := 0
						if s.X > r.left && s.X < r.right && s.Y > r.top && s.Y < r.bottom {
							want = vbWinding(s, p)
						}
						got := 0
						for _, q := range out {
							got += vbWinding(s, q)
						}
						if got != want {
							bad = fmt.Sprintf("winding at %v is %d, want %d", s, got, want)
							break
						}
					}
				}
				if bad != "" {
					report("winding", r, p, out, bad)
				}
			}
		}
		if len(p) == maxN {
			return
		}
		for _, g := range grid {
			rec(append(append(Path64{}, p...), g))
		}
	}
	rec(Path64{})
	for _, w := range []string{"vertices-in-rect", "fast-paths", "winding"} {
		fmt.Printf("VERIF-BOUNDED RectClipPaths64.%s cases=%d failures=%d\n", w, cases, fails[w])
	}
}

func vbOrient(a, b, c Point64) int64 {
	v := (b.X-a.X)*(c.Y-a.Y) - (b.Y-a.Y)*(c.X-a.X)
	switch {
	case v > 0:
		return 1
	case v < 0:
		return -1
	}
	return 0
}

func vbOnSeg(a, b, p Point64) bool {
	return vbOrient(a, b, p) == 0 && min(a.X, b.X) <= p.X && p.X <= max(a.X, b.X) && min(a.Y, b.Y) <= p.Y && p.Y <= max(a.Y, b.Y)
}

// closed segments ab and cd share a point
func vbSegsMeet(a, b, c, d Point64) bool {
	o1, o2, o3, o4 := vbOrient(a, b, c), vbOrient(a, b, d), vbOrient(c, d, a), vbOrient(c, d, b)
	if o1 != o2 && o3 != o4 && o1*o2 <= 0 && o3*o4 <= 0 && (o1 != 0 || o2 != 0 || o3 != 0 || o4 != 0) {
		if o1*o2 < 0 && o3*o4 < 0 {
			return true
		}
	}
	return vbOnSeg(a, b, c) || vbOnSeg(a, b, d) || vbOnSeg(c, d, a) || vbOnSeg(c, d, b)
}

func TestVerifBoundedRectClipLarger(t *testing.T) {
	n := 100000
	if os.Getenv("VERIF_TIER") == "thorough" {
		n = 2000000
	}
	seed, _ := strconv.Atoi(os.Getenv("VERIF_SEED"))
	rng := rand.New(rand.NewSource(int64(seed) + 7))
	rects := []Rect64{{8, 8, 24, 24}, {4, 12, 20, 28}, {0, 8, 32, 16}, {12, 4, 20, 36}}
	var samples []Point64
	for x := int64(-2); x <= 42; x += 4 {
		for y := int64(-2); y <= 42; y += 4 {
			samples = append(samples, Point64{x, y})
		}
	}
	cases := map[string]int{}
	fails := map[string]int{}
	// directed family: spirals that wind 1, 2 or 3 times around the rectangle without meeting it
	var directed []Path64
	var directedRect []Rect64
	for _, r := range rects {
		for turns := 1; turns <= 3; turns++ {
			for _, rev := range []bool{false, true} {
				var p Path64
				for tt := 0; tt < turns; tt++ {
					d := int64(4 * (tt + 1))
					p = append(p, Point64{r.left - d, r.top - d}, Point64{r.right + d, r.top - d}, Point64{r.right + d, r.bottom + d}, Point64{r.left - d, r.bottom + d})
				}
				if rev {
					p = ReversePath(p)
				}
				directed = append(directed, p)
				directedRect = append(directedRect, r)
			}
		}
	}
	for it := 0; it < n+len(directed); it++ {
		var p Path64
		var r Rect64
		if it < len(directed) {
			p, r = directed[it], directedRect[it]
		} else {
			p = make(Path64, 5+rng.Intn(6))
			for i := range p {
				p[i] = Point64{int64(rng.Intn(11)) * 4, int64(rng.Intn(11)) * 4}
			}
			r = rects[rng.Intn(len(rects))]
		}
		k := len(p)
		rp := r.AsPath()
		meets := false
		for i := range p {
			for j := range rp {
				if vbSegsMeet(p[i], p[(i+1)%k], rp[j], rp[(j+1)%4]) {
					meets = true
				}
			}
		}
		which := "winding-larger"
		if !meets {
			which = "enclosing-winding"
		}
		cases[which]++
		out := RectClipPaths64(r, Paths64{append(Path64{}, p...)})
		bad := ""
		for _, s := range samples {
			far := true
			for i := range p {
				if !vbFarFromSeg(s, p[i], p[(i+1)%k]) {
					far = false
				}
			}
			for i := range rp {
				if !vbFarFromSeg(s, rp[i], rp[(i+1)%4]) {
					far = false
				}
			}
			if !far {
				continue
			}
			want := 0
			if s.X > r.left && s.X < r.right && s.Y > r.top && s.Y < r.bottom {
				want = vbWinding(s, p)
			}
			got := 0
			for _, q := range out {
				got += vbWinding(s, q)
			}
			if got != want {
				bad = fmt.Sprintf("winding at %v is %d, want %d", s, got, want)
				break
			}
		}
		if bad != "" {
			fails[which]++
			if fails[which] <= 3 {
				fmt.Printf("VERIF-BOUNDED-FAIL RectClipPaths64.%s rect %v path %v -> %v: %s\n", which, r, p, out, bad)
			}
		}
	}
	for _, w := range []string{"winding-larger", "enclosing-winding"} {
		fmt.Printf("VERIF-BOUNDED RectClipPaths64.%s cases=%d failures=%d\n", w, cases[w], fails[w])
	}
}
