//go:build verif

// prop: C05
// tier: quick
// name: InflatePolygons.smooth-contours
// what: for smooth closed contours (regular polygons whose every turn is below 8 degrees, alone or as the hole of an annulus, either orientation) and EndType Polygon, all four join types: over-shrinking (|delta| larger than the circumradius plus 3) returns nothing; a positive delta larger than the hole's circumradius plus 3 closes the hole (every sample point of the hole is in the result); a moderate delta moves the boundary by delta: sample points on 16 rays nearer than inradius+delta-3 to the centre are inside and points farther than circumradius+k*delta+3 outside (k as in C05; the mirror statement for a hole)
// bound: 120 (quick) / 3000 (thorough) pseudo-random regular polygons (48-160 vertices, circumradius 300-5000, random phase and centre, integer vertices; seeded by VERIF_SEED) x 4 join types x deltas {-(R+4), -1.5R, -R/2, -R/10, R/10, R/2} for a disc and {r+4, 1.5r, r/2, -r/2} for the hole of radius r of an annulus with outer radius 3r; 16 rays x 9 sample distances
// sampled: InflatePolygons.smooth-contours

package go_clipper2

import (
	"fmt"
	"math"
	"math/rand"
	"os"
	"strconv"
	"testing"
)

func v5sRegular(cx, cy, r, phase float64, n int) Path64 {
	p := make(Path64, 0, n)
	for i := 0; i < n; i++ {
		a := phase + 2*math.Pi*float64(i)/float64(n)
		p = append(p, Point64{int64(math.Round(cx + r*math.Cos(a))), int64(math.Round(cy + r*math.Sin(a)))})
	}
	return p
}

func TestVerifBoundedInflateSmooth(t *testing.T) {
	n := 120
	if os.Getenv("VERIF_TIER") == "thorough" {
		n = 3000
	}
	seed, _ := strconv.Atoi(os.Getenv("VERIF_SEED"))
	rng := rand.New(rand.NewSource(int64(seed) + 515))
	cases, fails := 0, 0
	report := func(in Paths64, delta float64, jt JoinType, out Paths64, why string) {
		fails++
		if fails <= 3 {
			s := fmt.Sprint(out)
			if len(s) > 300 {
				s = s[:300] + "..."
			}
			fmt.Printf("VERIF-BOUNDED-FAIL InflatePolygons.smooth-contours paths %v delta %v join %v -> %s: %s\n", in, delta, jt, s, why)
		}
	}
	const tol = 3.0
	for it := 0; it < n; it++ {
		nv := 48 + rng.Intn(113)
		R := 300 + rng.Float64()*4700
		cx, cy := float64(rng.Intn(2001)-1000), float64(rng.Intn(2001)-1000)
		ph := rng.Float64() * 2 * math.Pi
		ring := v5sRegular(cx, cy, R, ph, nv)
		inr := R*math.Cos(math.Pi/float64(nv)) - 1.5 // inradius, allowing for vertex rounding
		circ := R + 1.5
		annulus := it%2 == 1
		rev := rng.Intn(2) == 0
		var in Paths64
		var deltas []float64
		if annulus {
			in = Paths64{v5sRegular(cx, cy, 3*R, ph/2, nv*2), ReversePath(ring)}
			deltas = []float64{R + 4, 1.5 * R, R / 2, -R / 2}
		} else {
			in = Paths64{ring}
			deltas = []float64{-(R + 4), -1.5 * R, -R / 2, -R / 10, R / 10, R / 2}
		}
		if rev {
			for i := range in {
				in[i] = ReversePath(in[i])
			}
		}
		for _, jt := range []JoinType{Round, Miter, Square, Bevel} {
			k := 1.0
			switch jt {
			case Square:
				k = math.Sqrt2
			case Miter:
				k = 2
			}
			for _, delta := range deltas {
				cp := make(Paths64, len(in))
				for i := range in {
					cp[i] = append(Path64{}, in[i]...)
				}
				out := InflatePaths64(cp, delta, jt, Polygon)
				cases++
				if !annulus && -delta > circ+tol {
					if len(out) != 0 {
						report(in, delta, jt, out, fmt.Sprintf("over-shrunk contour should vanish, got %d path(s), area %.0f", len(out), AreaPaths64(out)))
					}
					continue
				}
				// the moved boundary of the smooth contour: for a disc the region is d < r(delta),
				// for the hole of the annulus the region is d > r(-delta)
				d := delta
				if annulus {
					d = -delta
				}
				// region near the contour is {dist < lo} surely inside-disc side, {dist > hi} surely outside-disc side
				var lo, hi float64
				if d >= 0 { // the disc side grows
					lo, hi = inr+d-tol, circ+k*d+tol
				} else { // the disc side shrinks
					lo, hi = inr+k*d-tol, circ+d+tol
				}
				bad := ""
				for ray := 0; ray < 16; ray++ {
					a := 2 * math.Pi * (float64(ray) + rng.Float64()) / 16
					for s := 0; s < 9; s++ {
						var dist float64
						switch {
						case s < 4:
							dist = lo * float64(s) / 4
							if s == 3 {
								dist = lo - 0.01
							}
						case s < 8:
							dist = hi + (2*R-hi)*float64(s-4)/4 + 0.01
							if annulus && dist > 3*R-R/2-10 {
								continue
							}
						default:
							continue
						}
						if dist < 0 {
							continue
						}
						pt := Point64{int64(math.Round(cx + dist*math.Cos(a))), int64(math.Round(cy + dist*math.Sin(a)))}
						dd := math.Hypot(float64(pt.X)-cx, float64(pt.Y)-cy)
						discSide := dd < lo
						if !discSide && dd <= hi {
							continue
						}
						got := vcWindAll(pt, out) != 0
						want := discSide != annulus
						if got != want {
							bad = fmt.Sprintf("point %v at %.1f from the centre (moved contour between %.1f and %.1f): in result %v, want %v", pt, dd, lo, hi, got, want)
						}
					}
				}
				if bad != "" {
					report(in, delta, jt, out, bad)
				}
			}
		}
	}
	fmt.Printf("VERIF-BOUNDED InflatePolygons.smooth-contours cases=%d failures=%d\n", cases, fails)
}
