//go:build verif

// prop: C10
// tier: quick
// name: InflatePaths64.open-stroke-nonempty
// what: a two-point open path inflated by delta >= 1 with end type Butt, Square or Round yields a non-empty polygon set whose bounding box contains both end points (the stroke of half-width delta)
// bound: every segment between distinct points of the 5x5 grid {0,10,20,30,40}^2, delta in {1, 5}, 3 open end types x 4 join types, exhaustive

package go_clipper2

import (
	"fmt"
	"testing"
)

func TestVerifBoundedOpenCaps(t *testing.T) {
	var grid []Point64
	for x := int64(0); x < 5; x++ {
		for y := int64(0); y < 5; y++ {
			grid = append(grid, Point64{10 * x, 10 * y})
		}
	}
	cases, fails := 0, 0
	for _, a := range grid {
		for _, b := range grid {
			if a == b {
				continue
			}
			for _, d := range []float64{1, 5} {
				for _, et := range []EndType{Butt, SquareET, RoundET} {
					for _, jt := range []JoinType{Miter, Square, Bevel, Round} {
						cases++
						r := InflatePaths64(Paths64{{a, b}}, d, jt, et)
						ok := len(r) > 0
						if ok {
							var all Path64
							for _, p := range r {
								all = append(all, p...)
							}
							bb := GetBounds64(all)
							ok = bb.left <= min(a.X, b.X) && bb.right >= max(a.X, b.X) && bb.top <= min(a.Y, b.Y) && bb.bottom >= max(a.Y, b.Y)
						}
						if !ok {
							fails++
							if fails <= 3 {
								fmt.Printf("VERIF-BOUNDED-FAIL InflatePaths64.open-stroke-nonempty InflatePaths64({{%v %v}}, %v, join %d, end %d) = %v\n", a, b, d, jt, et, r)
							}
						}
					}
				}
			}
		}
	}
	fmt.Printf("VERIF-BOUNDED InflatePaths64.open-stroke-nonempty cases=%d failures=%d\n", cases, fails)
}
