//go:build verif

// prop: C18
// tier: quick
// race: true
// name: Concurrent.same-as-alone Concurrent.inputs-untouched
// what: run under the Go race detector: 12 goroutines call the package-level functions and use their own engine, offset and rectangle-clip objects at the same time, all reading the same shared input slices; (same-as-alone) every call returns exactly what it returned when run alone beforehand, (inputs-untouched) the shared inputs are unchanged afterwards; a data race reported by the detector fails both
// bound: 12 goroutines x 40 (quick) / 400 (thorough) rounds over 24 shared pseudo-random inputs (seeded by VERIF_SEED), 15 operations per round (parameters vary with the input, so that caches keyed on a parameter are exercised); the interleavings explored are those the scheduler happens to produce
// sampled: Concurrent.same-as-alone Concurrent.inputs-untouched

package go_clipper2

import (
	"fmt"
	"math/rand"
	"os"
	"strconv"
	"sync"
	"sync/atomic"
	"testing"
)

func v18Ops(a, b Paths64, ad PathsD, variant int) []string {
	var out []string
	add := func(x interface{}) { out = append(out, fmt.Sprint(x)) }
	add(BooleanOpPaths64(Union, a, b, NonZero))
	add(BooleanOpPaths64(Xor, a, b, EvenOdd))
	tr := BooleanOpPolyTree64(Difference, a, b, NonZero)
	add(tr.Count())
	e := NewClipper64()
	e.AddPaths(a, Subject, false)
	e.AddPaths(b, Clip, false)
	var s1, s2 Paths64
	e.Execute(Intersection, Positive, &s1)
	e.Execute(Union, Negative, &s2)
	add(s1)
	add(s2)
	add(InflatePaths64(a, 3, Round, Polygon))
	add(InflatePaths64(b, float64(2+variant%3), Round, RoundET))
	add(InflatePaths64(a, -1.5, Miter, Polygon))
	co := NewClipperOffset(2, 0, false, false)
	co.AddPaths(a, Square, Polygon)
	var s3 Paths64
	co.Execute64(2, &s3)
	add(s3)
	add(RectClipPaths64(NewRect64(8, 8, 28, 28), a))
	add(RectClipLinesPaths64(NewRect64(8, 8, 28, 28), b))
	add(MinkowskiSum64(a[0], b[0], true))
	add(SimplifyPaths64(a, 2, true))
	add(TrimCollinear64(a[0], false))
	add(BooleanOpPathsD(Union, ad, nil, NonZero, 2))
	add(fmt.Sprint(Area64(a[0]), PointInPolygon(Point64{20, 20}, a[0]), GetBounds64(b[0])))
	return out
}

func TestVerifBoundedConcurrent(t *testing.T) {
	rounds := 40
	if os.Getenv("VERIF_TIER") == "thorough" {
		rounds = 400
	}
	seed, _ := strconv.Atoi(os.Getenv("VERIF_SEED"))
	rng := rand.New(rand.NewSource(int64(seed) + 1818))
	const nIn = 24
	ins := make([]Paths64, nIn)
	insD := make([]PathsD, nIn)
	for i := range ins {
		for k := 0; k < 2; k++ {
			p := make(Path64, 3+rng.Intn(4))
			pd := make(PathD, len(p))
			for j := range p {
				p[j] = Point64{int64(rng.Intn(11)) * 4, int64(rng.Intn(11)) * 4}
				pd[j] = PointD{float64(p[j].X) / 2, float64(p[j].Y) / 2}
			}
			ins[i] = append(ins[i], p)
			insD[i] = append(insD[i], pd)
		}
	}
	before := fmt.Sprint(ins, insD)
	alone := make([][]string, nIn)
	for i := range ins {
		alone[i] = v18Ops(ins[i], ins[(i+1)%nIn], insD[i], i)
	}
	var diffs int64
	var first atomic.Value
	var wg sync.WaitGroup
	const G = 12
	for g := 0; g < G; g++ {
		wg.Add(1)
		go func(g int) {
			defer wg.Done()
			for r := 0; r < rounds; r++ {
				i := (g*7 + r) % nIn
				got := v18Ops(ins[i], ins[(i+1)%nIn], insD[i], i)
				for k := range got {
					if got[k] != alone[i][k] {
						if atomic.AddInt64(&diffs, 1) == 1 {
							first.Store(fmt.Sprintf("input %d operation %d: alone %s, concurrently %s", i, k, alone[i][k], got[k]))
						}
					}
				}
			}
		}(g)
	}
	wg.Wait()
	cases := G * rounds
	f1, f2 := 0, 0
	if diffs > 0 {
		f1 = int(diffs)
		fmt.Printf("VERIF-BOUNDED-FAIL Concurrent.same-as-alone %v\n", first.Load())
	}
	if fmt.Sprint(ins, insD) != before {
		f2 = 1
		fmt.Printf("VERIF-BOUNDED-FAIL Concurrent.inputs-untouched a shared input slice was modified\n")
	}
	fmt.Printf("VERIF-BOUNDED Concurrent.same-as-alone cases=%d failures=%d\n", cases, f1)
	fmt.Printf("VERIF-BOUNDED Concurrent.inputs-untouched cases=%d failures=%d\n", cases, f2)
}
