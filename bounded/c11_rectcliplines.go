//go:build verif

// prop: C11
// tier: quick
// name: RectClipLinesPaths64.vertices-in-rect RectClipLinesPaths64.vertices-on-line RectClipLinesPaths64.segments-kept RectClipLinesPaths64.coverage
// what: (vertices) every output vertex lies within the rectangle (at most 1 unit outside) and within 1 unit of an input segment; (segments-kept) a two-point segment with both end points strictly inside the rectangle is returned as it is, and a polyline is never closed up (an output path never has more vertices inside the rectangle than its input line has vertices plus crossings); (coverage) the eighth-points of every input segment that are more than 2 units from the rectangle boundary lie within 1 unit per coordinate of an output segment exactly when they are inside the rectangle (zero-length segments are skipped)
// bound: every polyline of 2..3 points (quick) / 2..4 points (thorough) over the 5x5 grid {0,8,..,32}^2 against the rectangles [8,24]^2, [4,20]x[12,28] and [0,32]x[8,16], exhaustive; plus 50000 (quick) / 1000000 (thorough) pseudo-random polylines of 4..9 points on the 6x6 grid {0,8,..,40}^2 against four rectangles, seeded by VERIF_SEED (sampled, not exhaustive)
// sampled: RectClipLinesPaths64.vertices-in-rect RectClipLinesPaths64.vertices-on-line RectClipLinesPaths64.segments-kept RectClipLinesPaths64.coverage

package go_clipper2

import (
	"fmt"
	"math/rand"
	"os"
	"strconv"
	"testing"
)

func vbNearSeg1(pt, a, b Point64) bool {
	// distance from pt to segment ab <= sqrt(2) (1 unit per coordinate)
	dx, dy := b.X-a.X, b.Y-a.Y
	px, py := pt.X-a.X, pt.Y-a.Y
	l2 := dx*dx + dy*dy
	if l2 == 0 {
		return px*px+py*py <= 2
	}
	t := px*dx + py*dy
	if t <= 0 {
		return px*px+py*py <= 2
	}
	if t >= l2 {
		qx, qy := pt.X-b.X, pt.Y-b.Y
		return qx*qx+qy*qy <= 2
	}
	cr := px*dy - py*dx
	return cr*cr <= 2*l2
}

func TestVerifBoundedRectClipLines(t *testing.T) {
	maxN := 3
	if os.Getenv("VERIF_TIER") == "thorough" {
		maxN = 4
	}
	var grid []Point64
	for x := int64(0); x < 5; x++ {
		for y := int64(0); y < 5; y++ {
			grid = append(grid, Point64{8 * x, 8 * y})
		}
	}
	rects := []Rect64{{8, 8, 24, 24}, {4, 12, 20, 28}, {0, 8, 32, 16}}
	cases := 0
	fails := map[string]int{}
	report := func(which string, r Rect64, p Path64, out Paths64, why string) {
		fails[which]++
		if fails[which] <= 3 {
			fmt.Printf("VERIF-BOUNDED-FAIL RectClipLinesPaths64.%s rect %v line %v -> %v: %s\n", which, r, p, out, why)
		}
	}
	var rec func(p Path64)
	var checkOne func(r Rect64, p Path64)
	rec = func(p Path64) {
		if len(p) >= 2 {
			for _, r := range rects {
				checkOne(r, p)
			}
		}
		if len(p) == maxN {
			return
		}
		for _, g := range grid {
			rec(append(append(Path64{}, p...), g))
		}
	}
	checkOne = func(r Rect64, p Path64) {
		{
			{
				cases++
				out := RectClipLinesPaths64(r, Paths64{append(Path64{}, p...)})
				bad := ""
				for _, q := range out {
					for _, v := range q {
						if v.X < r.left-1 || v.X > r.right+1 || v.Y < r.top-1 || v.Y > r.bottom+1 {
							report("vertices-in-rect", r, p, out, fmt.Sprintf("vertex %v outside the rectangle", v))
						}
						near := false
						for i := 0; i+1 < len(p); i++ {
							if vbNearSeg1(v, p[i], p[i+1]) {
								near = true
							}
						}
						if !near {
							bad = fmt.Sprintf("vertex %v is not on the input line", v)
						}
					}
				}
				if bad != "" {
					report("vertices-on-line", r, p, out, bad)
				}
				bad = ""
				inside := func(v Point64) bool { return v.X > r.left && v.X < r.right && v.Y > r.top && v.Y < r.bottom }
				if len(p) == 2 && p[0] != p[1] && inside(p[0]) && inside(p[1]) {
					if len(out) != 1 || len(out[0]) != 2 || out[0][0] != p[0] || out[0][1] != p[1] {
						bad = "two-point segment inside the rectangle not returned"
					}
				}
				if len(p) >= 3 {
					for _, q := range out {
						if len(q) > len(p)+2*(len(p)-1) {
							bad = "more vertices than a clipped line can have (closed up?)"
						}
					}
				}
				if bad != "" {
					report("segments-kept", r, p, out, bad)
				}
				bad = ""
				for i := 0; i+1 < len(p) && bad == ""; i++ {
					if p[i] == p[i+1] {
						continue // a zero-length segment is not a line
					}
					for k := int64(0); k <= 8; k++ {
						s := Point64{p[i].X + (p[i+1].X-p[i].X)*k/8, p[i].Y + (p[i+1].Y-p[i].Y)*k/8}
						in := s.X > r.left+2 && s.X < r.right-2 && s.Y > r.top+2 && s.Y < r.bottom-2
						farOut := s.X < r.left-2 || s.X > r.right+2 || s.Y < r.top-2 || s.Y > r.bottom+2
						if !in && !farOut {
							continue
						}
						covered := false
						for _, q := range out {
							for j := 0; j+1 < len(q); j++ {
								if vbNearSeg1(s, q[j], q[j+1]) {
									covered = true
								}
							}
						}
						if covered != in {
							bad = fmt.Sprintf("point %v of the input line: inside=%v covered=%v", s, in, covered)
							break
						}
					}
				}
				if bad != "" {
					report("coverage", r, p, out, bad)
				}
			}
		}
	}
	rec(Path64{})
	// pseudo-random longer polylines on a finer grid (not exhaustive)
	nRand := 50000
	if os.Getenv("VERIF_TIER") == "thorough" {
		nRand = 1000000
	}
	seed, _ := strconv.Atoi(os.Getenv("VERIF_SEED"))
	rng := rand.New(rand.NewSource(int64(seed) + 11))
	rects2 := []Rect64{{8, 8, 24, 24}, {4, 12, 20, 28}, {0, 8, 32, 16}, {12, 4, 20, 36}}
	for it := 0; it < nRand; it++ {
		p := make(Path64, 4+rng.Intn(6))
		for i := range p {
			p[i] = Point64{int64(rng.Intn(6)) * 8, int64(rng.Intn(6)) * 8}
		}
		checkOne(rects2[rng.Intn(len(rects2))], p)
	}
	for _, w := range []string{"vertices-in-rect", "vertices-on-line", "segments-kept", "coverage"} {
		fmt.Printf("VERIF-BOUNDED RectClipLinesPaths64.%s cases=%d failures=%d\n", w, cases, fails[w])
	}
}
