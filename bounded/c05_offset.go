//go:build verif

// prop: C05
// tier: quick
// name: InflatePolygons.contains-offset InflatePolygons.within-k-delta InflatePolygons.round-exact InflatePolygons.sub-unit-delta
// what: for simple polygons (star-shaped outer boundary, optionally a star-shaped hole, either orientation) and EndType Polygon: (contains-offset) for delta > 0 every lattice point of the input region and every point at distance up to delta-3 from an edge midpoint along its outward normal is inside the result; for delta < 0 every lattice point deeper than |delta|+3 inside the input region is inside the result and every point closer than |delta|-3 to the boundary (inside) or outside the region is outside the result; (within-k-delta) for delta > 0 no lattice point farther than k*delta+3 from the input region is inside the result (k = 1 Round/Bevel, sqrt 2 Square, 2 Miter with the default limit); (round-exact) with Round joins lattice points nearer than delta-3 to the region are inside and points farther than delta+3 outside; (sub-unit-delta) |delta| < 0.5 returns the input paths
// bound: 1500 (quick) / 40000 (thorough) pseudo-random star-shaped polygons (3-9 vertices, radii 8-28 around (40,40), integer vertices; a hole with radii 2-6 in a third of the cases; seeded by VERIF_SEED) x 4 join types x deltas {1, 2.5, 5, 9, -1, -2.5, -5, 0.3}; lattice step 3 on [-10,90]^2; distances in float64
// sampled: InflatePolygons.contains-offset InflatePolygons.within-k-delta InflatePolygons.round-exact InflatePolygons.sub-unit-delta

package go_clipper2

import (
	"fmt"
	"math"
	"math/rand"
	"os"
	"sort"
	"strconv"
	"testing"
)

func v5DistSeg(px, py float64, a, b Point64) float64 {
	ax, ay, bx, by := float64(a.X), float64(a.Y), float64(b.X), float64(b.Y)
	dx, dy := bx-ax, by-ay
	l2 := dx*dx + dy*dy
	t := 0.0
	if l2 > 0 {
		t = ((px-ax)*dx + (py-ay)*dy) / l2
	}
	t = math.Max(0, math.Min(1, t))
	return math.Hypot(px-(ax+t*dx), py-(ay+t*dy))
}

func v5DistBoundary(px, py float64, pp Paths64) float64 {
	d := math.Inf(1)
	for _, p := range pp {
		for i := range p {
			d = math.Min(d, v5DistSeg(px, py, p[i], p[(i+1)%len(p)]))
		}
	}
	return d
}

func v5Star(rng *rand.Rand, n int, rmin, rmax float64) Path64 {
	angs := make([]float64, n)
	for i := range angs {
		angs[i] = rng.Float64() * 2 * math.Pi
	}
	sort.Float64s(angs)
	// keep consecutive angles below pi so that the polygon stays star-shaped around the centre
	for i := range angs {
		angs[i] = 2 * math.Pi * (float64(i) + 0.15 + 0.7*rng.Float64()) / float64(n)
	}
	var p Path64
	for _, a := range angs {
		r := rmin + (rmax-rmin)*rng.Float64()
		pt := Point64{40 + int64(math.Round(r*math.Cos(a))), 40 + int64(math.Round(r*math.Sin(a)))}
		if len(p) == 0 || p[len(p)-1] != pt {
			p = append(p, pt)
		}
	}
	return p
}

func TestVerifBoundedInflatePolygons(t *testing.T) {
	n := 1500
	if os.Getenv("VERIF_TIER") == "thorough" {
		n = 40000
	}
	seed, _ := strconv.Atoi(os.Getenv("VERIF_SEED"))
	rng := rand.New(rand.NewSource(int64(seed) + 505))
	cases := map[string]int{}
	fails := map[string]int{}
	report := func(which string, in Paths64, delta float64, jt JoinType, out Paths64, why string) {
		fails[which]++
		if fails[which] <= 3 {
			fmt.Printf("VERIF-BOUNDED-FAIL InflatePolygons.%s paths %v delta %v join %v -> %v: %s\n", which, in, delta, jt, out, why)
		}
	}
	const tol = 3.0
	for it := 0; it < n; it++ {
		outer := v5Star(rng, 3+rng.Intn(7), 8, 28)
		if len(outer) < 3 {
			continue
		}
		in := Paths64{outer}
		if Area64(outer) <= 0 || vcWinding(Point64{40, 40}, outer) == 0 {
			continue // not star-shaped around the centre after rounding
		}
		if rng.Intn(3) == 0 && v5DistBoundary(40, 40, in) >= 10 {
			hole := v5Star(rng, 3+rng.Intn(4), 2, 6)
			if len(hole) >= 3 && Area64(hole) > 0 {
				in = append(in, ReversePath(hole))
			}
		}
		if rng.Intn(2) == 0 {
			for i := range in {
				in[i] = ReversePath(in[i])
			}
		}
		inside := func(x, y int64) bool { return vcWindAll(Point64{x, y}, in) != 0 }
		for _, jt := range []JoinType{Round, Miter, Square, Bevel} {
			k := 1.0
			switch jt {
			case Square:
				k = math.Sqrt2
			case Miter:
				k = 2
			}
			for _, delta := range []float64{1, 2.5, 5, 9, -1, -2.5, -5, 0.3} {
				cp := make(Paths64, len(in))
				for i := range in {
					cp[i] = append(Path64{}, in[i]...)
				}
				out := InflatePaths64(cp, delta, jt, Polygon)
				if math.Abs(delta) < 0.5 {
					cases["sub-unit-delta"]++
					if fmt.Sprint(out) != fmt.Sprint(in) {
						report("sub-unit-delta", in, delta, jt, out, "input paths not returned")
					}
					continue
				}
				cases["contains-offset"]++
				if delta > 0 {
					cases["within-k-delta"]++
				}
				if jt == Round {
					cases["round-exact"]++
				}
				outIn := func(x, y int64) bool { return vcWindAll(Point64{x, y}, out) != 0 }
				bad1, bad2, bad3 := "", "", ""
				for x := int64(-10); x <= 90; x += 3 {
					for y := int64(-10); y <= 90; y += 3 {
						in0 := inside(x, y)
						db := v5DistBoundary(float64(x), float64(y), in)
						dreg := db // distance to the region
						if in0 {
							dreg = 0
						}
						got := outIn(x, y)
						if delta > 0 {
							if in0 && db > tol && !got {
								bad1 = fmt.Sprintf("point (%d,%d) of the input region is not in the result", x, y)
							}
							if dreg > k*delta+tol && got {
								bad2 = fmt.Sprintf("point (%d,%d) at distance %.2f from the region is in the result", x, y, dreg)
							}
							if jt == Round {
								if dreg < delta-tol && !got {
									bad3 = fmt.Sprintf("point (%d,%d) at distance %.2f (< delta-3) is not in the result", x, y, dreg)
								}
								if dreg > delta+tol && got {
									bad3 = fmt.Sprintf("point (%d,%d) at distance %.2f (> delta+3) is in the result", x, y, dreg)
								}
							}
						} else {
							ad := -delta
							if in0 && db > ad*k+tol && !got {
								bad1 = fmt.Sprintf("point (%d,%d), %.2f inside the region, is not in the result", x, y, db)
							}
							if (!in0 && db > tol) && got {
								bad1 = fmt.Sprintf("point (%d,%d) outside the region is in the result", x, y)
							}
							if jt == Round {
								if in0 && db > ad+tol && !got {
									bad3 = fmt.Sprintf("point (%d,%d), %.2f inside, is not in the result", x, y, db)
								}
								if in0 && db < ad-tol && got {
									bad3 = fmt.Sprintf("point (%d,%d), only %.2f inside, is in the result", x, y, db)
								}
							}
						}
					}
				}
				// along edge normals (delta > 0): midpoints pushed outwards by up to delta - tol
				if delta > tol {
					for _, p := range in {
						for i := range p {
							a, b := p[i], p[(i+1)%len(p)]
							mx, my := float64(a.X+b.X)/2, float64(a.Y+b.Y)/2
							ex, ey := float64(b.X-a.X), float64(b.Y-a.Y)
							l := math.Hypot(ex, ey)
							if l == 0 {
								continue
							}
							nx, ny := ey/l, -ex/l
							// outward: away from the region
							qx, qy := int64(math.Round(mx+nx*0.51)), int64(math.Round(my+ny*0.51))
							_ = qx
							_ = qy
							for _, sgn := range []float64{1, -1} {
								tx, ty := mx+sgn*nx*(delta-tol), my+sgn*ny*(delta-tol)
								ix, iy := int64(math.Round(tx)), int64(math.Round(ty))
								if inside(ix, iy) || v5DistBoundary(float64(ix), float64(iy), in) > delta-tol {
									continue // the other side of the edge, or rounding moved it too far
								}
								if !outIn(ix, iy) {
									bad1 = fmt.Sprintf("point (%d,%d), %.2f from the midpoint of edge %v-%v along its normal, is not in the result", ix, iy, delta-tol, a, b)
								}
							}
						}
					}
				}
				if bad1 != "" {
					report("contains-offset", in, delta, jt, out, bad1)
				}
				if bad2 != "" {
					report("within-k-delta", in, delta, jt, out, bad2)
				}
				if bad3 != "" {
					report("round-exact", in, delta, jt, out, bad3)
				}
			}
		}
	}
	for _, w := range []string{"contains-offset", "within-k-delta", "round-exact", "sub-unit-delta"} {
		fmt.Printf("VERIF-BOUNDED InflatePolygons.%s cases=%d failures=%d\n", w, cases[w], fails[w])
	}
}
