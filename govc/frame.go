package main

// Frame / ownership obligations discharged without a solver (DESIGN 2.6).

type FrameOb struct {
	Name   string
	OK     bool
	Detail string
	Sites  []string
	Sample bool
}

func frameObligations(w *World, prop string) []*FrameOb {
	return nil
}
