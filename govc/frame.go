package main

// Frame / ownership / initialisation obligations discharged without a solver
// (DESIGN 2.6).  All of them are recomputed from /repo's current source on every run.
//
//   frame.global[F]          F (and, transitively, its callees) writes no package-level
//                            variable and takes the address of none
//   frame.noconc[F]          no go statement, channel operation, select, defer of a
//                            state-changing closure; no sync/atomic/unsafe use
//   frame.nondet[F]          no range over a map, no time / math/rand / os use, no
//                            pointer-to-integer conversion
//   frame.pkgvar[V]          package-level variable V is initialised by a side-effect free
//                            expression and never assigned
//   frame.readonly[F.p]      exported F does not write memory reachable from slice/pointer
//                            parameter p (unless the contract says `modifies p`)
//   frame.replaces[F.p]      (contract keyword `replaces p`) the pre-call contents of *p are
//                            never read: *p is truncated/overwritten before its first use
//   init[F.field]            (contract keyword `initfields`) on every path through F the
//                            engine field is written before it is read

import (
	"fmt"
	"go/ast"
	"go/token"
	"go/types"
	"sort"
	"strings"
)

type FrameOb struct {
	Name   string
	OK     bool
	Detail string
	Sites  []string
	Sample bool
}

var framePropKinds = map[string][]string{
	"C18": {"global", "noconc", "pkgvar", "readonly", "noretain", "noshare"},
	"C17": {"global", "nondet", "pkgvar"},
	"C12": {"global", "readonly", "replaces", "init", "noretain", "noshare"},
	// the solution a caller reads after ExecuteOC / ExecutePolyTree is the one of this execution only
	"C09": {"replaces"},
	"C04": {"replaces"},
}

func frameObligations(w *World, prop string) []*FrameOb {
	kinds := framePropKinds[prop]
	if len(kinds) == 0 {
		return nil
	}
	want := map[string]bool{}
	for _, k := range kinds {
		want[k] = true
	}
	var out []*FrameOb
	keys := sortedKeys(w.prog.Funcs)
	info := w.prog.Info
	first := true
	add := func(fo *FrameOb) {
		if first && fo.OK {
			fo.Sample = true
			first = false
		}
		out = append(out, fo)
	}
	if want["global"] {
		first = true
		for _, k := range keys {
			fe := w.eff.F[k]
			fo := &FrameOb{Name: "frame.global[" + k + "]", OK: len(fe.Globals) == 0, Detail: "writes no package-level variable"}
			if !fo.OK {
				var gs []string
				for g, sites := range fe.GlobalSites {
					gs = append(gs, g)
					for _, s := range sites {
						fo.Sites = append(fo.Sites, g+": "+s)
					}
				}
				sort.Strings(gs)
				sort.Strings(fo.Sites)
				fo.Detail = "package-level variable(s) written or address taken: " + strings.Join(gs, ", ")
			}
			add(fo)
		}
	}
	if want["noconc"] || want["nondet"] {
		for _, k := range keys {
			fd := w.prog.Funcs[k]
			var conc, nondet []string
			ast.Inspect(fd.Body, func(n ast.Node) bool {
				switch x := n.(type) {
				case *ast.GoStmt:
					conc = append(conc, "go statement at "+w.eff.pos(x))
				case *ast.SendStmt:
					conc = append(conc, "channel send at "+w.eff.pos(x))
				case *ast.SelectStmt:
					conc = append(conc, "select at "+w.eff.pos(x))
				case *ast.UnaryExpr:
					if x.Op == token.ARROW {
						conc = append(conc, "channel receive at "+w.eff.pos(x))
					}
				case *ast.RangeStmt:
					if tv, ok := info.Types[x.X]; ok {
						switch tv.Type.Underlying().(type) {
						case *types.Map:
							nondet = append(nondet, "range over map at "+w.eff.pos(x))
						case *types.Chan:
							conc = append(conc, "range over channel at "+w.eff.pos(x))
						}
					}
				case *ast.SelectorExpr:
					if id, ok := x.X.(*ast.Ident); ok {
						if pn, ok := info.Uses[id].(*types.PkgName); ok {
							switch pn.Imported().Path() {
							case "sync", "sync/atomic", "unsafe", "runtime":
								conc = append(conc, pn.Imported().Path()+"."+x.Sel.Name+" at "+w.eff.pos(x))
							case "time", "math/rand", "math/rand/v2", "os", "crypto/rand", "reflect":
								nondet = append(nondet, pn.Imported().Path()+"."+x.Sel.Name+" at "+w.eff.pos(x))
							}
						}
					}
				case *ast.CallExpr:
					// conversion of a pointer to an integer
					if tv, ok := info.Types[x.Fun]; ok && tv.IsType() && len(x.Args) == 1 {
						if b, ok := tv.Type.Underlying().(*types.Basic); ok && b.Kind() == types.Uintptr {
							nondet = append(nondet, "conversion to uintptr at "+w.eff.pos(x))
						}
					}
				}
				return true
			})
			if want["noconc"] {
				fo := &FrameOb{Name: "frame.noconc[" + k + "]", OK: len(conc) == 0, Detail: "no goroutine, channel, select, sync, atomic or unsafe", Sites: conc}
				if !fo.OK {
					fo.Detail = "concurrency construct: " + strings.Join(conc, "; ")
				}
				out = append(out, fo)
			}
			if want["nondet"] {
				fo := &FrameOb{Name: "frame.nondet[" + k + "]", OK: len(nondet) == 0, Detail: "no map iteration, clock, random source, environment or address-as-integer", Sites: nondet}
				if !fo.OK {
					fo.Detail = "source of nondeterminism: " + strings.Join(nondet, "; ")
				}
				out = append(out, fo)
			}
		}
	}
	if want["pkgvar"] {
		for _, f := range w.prog.Files {
			for _, d := range f.Decls {
				gd, ok := d.(*ast.GenDecl)
				if !ok || gd.Tok != token.VAR {
					continue
				}
				for _, sp := range gd.Specs {
					vs := sp.(*ast.ValueSpec)
					for i, n := range vs.Names {
						if n.Name == "_" {
							continue
						}
						okInit := true
						detail := "initialised by a pure expression, never assigned"
						if i < len(vs.Values) {
							ast.Inspect(vs.Values[i], func(m ast.Node) bool {
								if call, ok := m.(*ast.CallExpr); ok {
									name := exprString(w.prog.Fset, call.Fun)
									switch name {
									case "math.Inf", "errors.New", "math.Pow", "math.Sqrt", "math.NaN":
									default:
										if tv, ok := info.Types[call.Fun]; ok && tv.IsType() {
											break
										}
										okInit = false
										detail = "initialiser calls " + name
									}
								}
								return true
							})
						}
						// mutable kinds (maps, slices, pointers, structs with such) are shared state even if never reassigned
						if obj := info.Defs[n]; obj != nil {
							switch obj.Type().Underlying().(type) {
							case *types.Map, *types.Slice, *types.Chan, *types.Pointer:
								okInit = false
								detail = "package-level " + obj.Type().String() + " is shared mutable state"
							case *types.Struct, *types.Array:
								// a value that is only read is fine; one whose address escapes (&v, or a
								// pointer-receiver method call on it) can be written through the alias
								if site := w.addressTaken(obj); site != "" {
									okInit = false
									detail = "address of package-level " + n.Name + " is taken at " + site + ": shared mutable state"
								}
							}
						}
						out = append(out, &FrameOb{Name: "frame.pkgvar[" + n.Name + "]", OK: okInit, Detail: detail, Sites: []string{w.eff.pos(n)}})
					}
				}
			}
		}
		// init() functions
		for _, k := range keys {
			if k == "init" {
				out = append(out, &FrameOb{Name: "frame.pkgvar[init()]", OK: false, Detail: "package has an init() function", Sites: []string{w.eff.pos(w.prog.Funcs[k])}})
			}
		}
	}
	if want["readonly"] {
		first = true
		for _, k := range keys {
			fd := w.prog.Funcs[k]
			if !isExportedAPI(k, fd) {
				continue
			}
			fe := w.eff.F[k]
			fc := w.prog.C.ByKey[k]
			idx := 0
			for _, f := range fd.Type.Params.List {
				names := f.Names
				if len(names) == 0 {
					names = []*ast.Ident{ast.NewIdent(fmt.Sprintf("_p%d", idx))}
				}
				for _, n := range names {
					t := info.Types[f.Type].Type
					isPathLike := false
					if t != nil {
						switch u := t.Underlying().(type) {
						case *types.Slice:
							isPathLike = true
							_ = u
						}
					}
					if isPathLike {
						allowed := false
						if fc != nil {
							for _, m := range fc.Modifies {
								if m == n.Name {
									allowed = true
								}
							}
						}
						fo := &FrameOb{Name: fmt.Sprintf("frame.readonly[%s.%s]", k, n.Name), OK: !fe.ParamWrites[idx] || allowed, Detail: "caller's slice is only read"}
						if !fo.OK {
							fo.Sites = fe.WriteSites[idx]
							fo.Detail = "memory of caller-supplied slice may be written: " + strings.Join(fe.WriteSites[idx], "; ")
						}
						add(fo)
					}
					idx++
				}
			}
		}
	}
	if want["noretain"] {
		// an engine must not keep a reference to a caller-supplied path slice: AddPaths copies vertices
		for _, k := range keys {
			fd := w.prog.Funcs[k]
			if fd.Body == nil || strings.HasPrefix(fd.Name.Name, "Test") {
				continue
			}
			sites := retainedParams(w, fd)
			isAdd := strings.Contains(strings.ToLower(fd.Name.Name), "addpath") || strings.Contains(strings.ToLower(fd.Name.Name), "addsubject") || strings.Contains(strings.ToLower(fd.Name.Name), "addclip")
			if len(sites) == 0 && !isAdd {
				continue // only the engines' Add* entry points are listed when clean
			}
			if why, ok := retainAllowed[k]; ok {
				out = append(out, &FrameOb{Name: "frame.noretain[" + k + "]", OK: true, Detail: "slice parameter kept in a field, allowed: " + why})
				continue
			}
			fo := &FrameOb{Name: "frame.noretain[" + k + "]", OK: len(sites) == 0, Detail: "no caller-supplied slice is stored in an object field", Sites: sites}
			if !fo.OK {
				fo.Detail = "caller-supplied slice stored in a field: " + strings.Join(sites, "; ")
			}
			out = append(out, fo)
		}
	}
	if want["noshare"] {
		// a stored slice is emptied by re-slicing itself (x = x[:0]); emptying it by re-slicing ANOTHER stored slice
		// (x = y[:0]) makes the two share one backing array, so that appending to one overwrites the other - state
		// leaks between work lists, between results, or between one call and the next on the same object
		for _, k := range keys {
			fd := w.prog.Funcs[k]
			if fd.Body == nil || strings.HasPrefix(fd.Name.Name, "Test") {
				continue
			}
			var sites []string
			ast.Inspect(fd.Body, func(n ast.Node) bool {
				as, ok := n.(*ast.AssignStmt)
				if !ok || len(as.Lhs) != len(as.Rhs) {
					return true
				}
				for i := range as.Rhs {
					se, ok := ast.Unparen(as.Rhs[i]).(*ast.SliceExpr)
					if !ok || se.Low != nil || se.High == nil {
						continue
					}
					tv, ok := info.Types[se.High]
					if !ok || tv.Value == nil || tv.Value.String() != "0" {
						continue
					}
					base := ast.Unparen(se.X)
					lhs := ast.Unparen(as.Lhs[i])
					if _, isIdent := lhs.(*ast.Ident); isIdent {
						if id, ok := base.(*ast.Ident); !ok || info.Uses[id] == nil {
							continue
						} else if _, isVar := info.Uses[id].(*types.Var); !isVar {
							continue
						}
					}
					bs, ls := exprString(w.prog.Fset, base), exprString(w.prog.Fset, lhs)
					if bs != ls {
						// a plain local receiving an emptied copy of something else is the append-to-scratch idiom only when the
						// source is itself a fresh local; stored slices (fields, elements, pointer targets) are flagged
						_, lhsLocal := lhs.(*ast.Ident)
						_, baseLocal := base.(*ast.Ident)
						if lhsLocal && baseLocal {
							continue
						}
						sites = append(sites, ls+" = "+bs+"[:0] at "+w.eff.pos(as))
					}
				}
				return true
			})
			if len(sites) > 0 {
				out = append(out, &FrameOb{Name: "frame.noshare[" + k + "]", OK: false, Detail: "a stored slice is emptied by re-slicing a different slice, so the two share one backing array: " + strings.Join(sites, "; "), Sites: sites})
			}
		}
		out = append(out, &FrameOb{Name: "frame.noshare[package]", OK: true, Detail: "every slice that is emptied in place is re-sliced from itself"})
	}
	if want["replaces"] {
		for _, fc := range w.prog.C.Funcs {
			if !hasProp(fc.Props, prop) {
				continue
			}
			for _, g := range fc.Ghosts {
				f := strings.Fields(g)
				if len(f) < 2 || f[0] != "replaces" {
					continue
				}
				for _, p := range f[1:] {
					ok, why := replacesParam(w, fc.Name, p, map[string]bool{})
					fo := &FrameOb{Name: fmt.Sprintf("frame.replaces[%s.%s]", fc.Name, p), OK: ok, Detail: "pre-call contents are discarded before the first use"}
					if !ok {
						fo.Detail = "pre-call contents of *" + p + " are read: " + why
						fo.Sites = []string{why}
					}
					out = append(out, fo)
				}
			}
		}
	}
	if want["init"] {
		for _, fc := range w.prog.C.Funcs {
			if !hasProp(fc.Props, prop) {
				continue
			}
			for _, g := range fc.Ghosts {
				f := strings.Fields(g)
				if len(f) < 2 || f[0] != "initfields" {
					continue
				}
				for _, fld := range f[1:] {
					ia := &initAnalysis{w: w, field: fld, memo: map[string]*initSummary{}, active: map[string]bool{}}
					s := ia.summary(fc.Name)
					fo := &FrameOb{Name: fmt.Sprintf("init[%s.%s]", fc.Name, fld), OK: len(s.readFirst) == 0, Detail: "field is written before it is read on every path"}
					if !fo.OK {
						fo.Detail = "field " + fld + " may be read before it is written in this call: " + strings.Join(s.readFirst, "; ")
						fo.Sites = s.readFirst
					}
					out = append(out, fo)
				}
			}
		}
	}
	return out
}

func isExportedAPI(key string, fd *ast.FuncDecl) bool {
	if !fd.Name.IsExported() {
		return false
	}
	if strings.HasPrefix(fd.Name.Name, "Test") || strings.HasPrefix(fd.Name.Name, "Benchmark") {
		return false
	}
	return true
}

// retainAllowed: internal functions that keep a slice parameter by design; the argument is never a
// caller-supplied slice (checked by reading the call sites, listed in the evidence)
var retainAllowed = map[string]string{
	"PolyPathBase.AddChild": "a tree node's payload is the polygon it is given; the engines pass freshly built paths (buildPath) and no function writes through PolyPath.polygon (frame.readonly)",
}

// aliasTaint computes, for one function, which expressions may alias memory of a slice parameter:
// the parameter itself, elements and sub-slices of it, range variables over it, results of package
// functions that may return an alias of an argument (returnsAlias), and append(...) of such values.
type aliasTaint struct {
	w      *World
	info   *types.Info
	vars   map[types.Object]bool
	retMay map[string]bool // functions whose result may alias a slice argument
}

func sliceLike(t types.Type) bool {
	if t == nil {
		return false
	}
	_, ok := t.Underlying().(*types.Slice)
	return ok
}

func (a *aliasTaint) tainted(e ast.Expr) bool {
	switch x := ast.Unparen(e).(type) {
	case *ast.Ident:
		return a.vars[a.info.Uses[x]]
	case *ast.SliceExpr:
		return a.tainted(x.X)
	case *ast.IndexExpr:
		if tv, ok := a.info.Types[x]; ok && sliceLike(tv.Type) {
			return a.tainted(x.X)
		}
	case *ast.CallExpr:
		if id, ok := ast.Unparen(x.Fun).(*ast.Ident); ok {
			if id.Name == "append" && a.info.Uses[id] != nil && a.info.Uses[id].Pkg() == nil {
				for _, arg := range x.Args {
					if a.tainted(arg) {
						return true
					}
				}
				return false
			}
			if fn, ok := a.info.Uses[id].(*types.Func); ok && a.retMay[fn.Name()] {
				for _, arg := range x.Args {
					if a.tainted(arg) {
						return true
					}
				}
			}
		}
	}
	return false
}

// seed marks the slice parameters and propagates through := / = / range inside the body (two passes)
func (a *aliasTaint) seed(fd *ast.FuncDecl) {
	a.vars = map[types.Object]bool{}
	for _, f := range fd.Type.Params.List {
		for _, n := range f.Names {
			if o := a.info.Defs[n]; o != nil && sliceLike(o.Type()) {
				a.vars[o] = true
			}
		}
	}
	for pass := 0; pass < 3; pass++ {
		ast.Inspect(fd.Body, func(n ast.Node) bool {
			switch x := n.(type) {
			case *ast.AssignStmt:
				for i, l := range x.Lhs {
					if i < len(x.Rhs) && len(x.Lhs) == len(x.Rhs) && a.tainted(x.Rhs[i]) {
						if id, ok := ast.Unparen(l).(*ast.Ident); ok {
							o := a.info.Defs[id]
							if o == nil {
								o = a.info.Uses[id]
							}
							if o != nil && sliceLike(o.Type()) {
								a.vars[o] = true
							}
						}
					}
				}
			case *ast.RangeStmt:
				if x.Value != nil && a.tainted(x.X) {
					if id, ok := x.Value.(*ast.Ident); ok {
						if o := a.info.Defs[id]; o != nil && sliceLike(o.Type()) {
							a.vars[o] = true
						}
					}
				}
			}
			return true
		})
	}
}

// returnsAliasSet: fixpoint over the package of "some return value may alias a slice parameter"
func returnsAliasSet(w *World) map[string]bool {
	ret := map[string]bool{}
	for changed := true; changed; {
		changed = false
		for k, fd := range w.prog.Funcs {
			if fd.Body == nil || fd.Recv != nil || ret[fd.Name.Name] {
				continue
			}
			_ = k
			a := &aliasTaint{w: w, info: w.prog.Info, retMay: ret}
			a.seed(fd)
			found := false
			// returns under "if len(p) == 0" hand back an empty slice: no memory is shared
			lenVars := map[types.Object]bool{}
			isLenOfTainted := func(e ast.Expr) bool {
				switch x := ast.Unparen(e).(type) {
				case *ast.CallExpr:
					if id, ok := x.Fun.(*ast.Ident); ok && id.Name == "len" && len(x.Args) == 1 {
						return a.tainted(x.Args[0])
					}
				case *ast.Ident:
					return lenVars[a.info.Uses[x]]
				}
				return false
			}
			ast.Inspect(fd.Body, func(n ast.Node) bool {
				if as, ok := n.(*ast.AssignStmt); ok && len(as.Lhs) == 1 && len(as.Rhs) == 1 && isLenOfTainted(as.Rhs[0]) {
					if id, ok := as.Lhs[0].(*ast.Ident); ok {
						if o := a.info.Defs[id]; o != nil {
							lenVars[o] = true
						}
					}
				}
				return true
			})
			emptyGuarded := map[ast.Node]bool{}
			ast.Inspect(fd.Body, func(n ast.Node) bool {
				if is, ok := n.(*ast.IfStmt); ok {
					if be, ok := ast.Unparen(is.Cond).(*ast.BinaryExpr); ok && be.Op == token.EQL && isLenOfTainted(be.X) {
						if tv, ok := a.info.Types[be.Y]; ok && tv.Value != nil && tv.Value.String() == "0" {
							ast.Inspect(is.Body, func(m ast.Node) bool {
								if rs, ok := m.(*ast.ReturnStmt); ok {
									emptyGuarded[rs] = true
								}
								return true
							})
						}
					}
				}
				return true
			})
			ast.Inspect(fd.Body, func(n ast.Node) bool {
				if rs, ok := n.(*ast.ReturnStmt); ok && !emptyGuarded[rs] {
					for _, r := range rs.Results {
						if tv, ok := a.info.Types[r]; ok && sliceLike(tv.Type) && a.tainted(r) {
							found = true
						}
					}
				}
				return !found
			})
			if found {
				ret[fd.Name.Name] = true
				changed = true
			}
		}
	}
	return ret
}

// retainedParams: statements that store memory of a slice parameter (the parameter, a sub-slice or
// element of it, or the result of a function that may hand its argument back) into an object field
func retainedParams(w *World, fd *ast.FuncDecl) []string {
	if w.retAlias == nil {
		w.retAlias = returnsAliasSet(w)
	}
	a := &aliasTaint{w: w, info: w.prog.Info, retMay: w.retAlias}
	a.seed(fd)
	var sites []string
	ast.Inspect(fd.Body, func(n ast.Node) bool {
		as, ok := n.(*ast.AssignStmt)
		if !ok {
			return true
		}
		for i, l := range as.Lhs {
			root := ast.Unparen(l)
			if ix, ok := root.(*ast.IndexExpr); ok {
				root = ast.Unparen(ix.X)
			}
			if _, isSel := root.(*ast.SelectorExpr); !isSel {
				continue
			}
			if i >= len(as.Rhs) || len(as.Lhs) != len(as.Rhs) {
				continue
			}
			if tv, ok := a.info.Types[as.Rhs[i]]; !ok || !sliceLike(tv.Type) {
				continue
			}
			if a.tainted(as.Rhs[i]) {
				sites = append(sites, exprString(w.prog.Fset, as.Rhs[i])+" stored at "+w.eff.pos(as))
			}
		}
		return true
	})
	return sites
}

// ---------------------------------------------------------------- replaces

func mentions(n ast.Node, obj types.Object, info *types.Info) bool {
	found := false
	ast.Inspect(n, func(m ast.Node) bool {
		if id, ok := m.(*ast.Ident); ok && info.Uses[id] == obj {
			found = true
		}
		return !found
	})
	return found
}

// replacesParam: is the pre-call content of *param dead in function key?
func replacesParam(w *World, key, param string, active map[string]bool) (bool, string) {
	if active[key+"."+param] {
		return true, ""
	}
	active[key+"."+param] = true
	defer delete(active, key+"."+param)
	fd := w.prog.Funcs[key]
	if fd == nil {
		return false, "unknown function " + key
	}
	info := w.prog.Info
	var obj types.Object
	for _, f := range fd.Type.Params.List {
		for _, n := range f.Names {
			if n.Name == param {
				obj = info.Defs[n]
			}
		}
	}
	if obj == nil {
		return false, "no parameter " + param + " in " + key
	}
	// status: true = cleared
	var scan func(list []ast.Stmt) (cleared bool, bad string)
	clearsStmt := func(s ast.Stmt) (bool, string) {
		// *P = (*P)[:0]   or   *P = <expr without P>
		if as, ok := s.(*ast.AssignStmt); ok && len(as.Lhs) == 1 && as.Tok == token.ASSIGN {
			if st, ok := ast.Unparen(as.Lhs[0]).(*ast.StarExpr); ok {
				if id, ok := ast.Unparen(st.X).(*ast.Ident); ok && info.Uses[id] == obj {
					r := ast.Unparen(as.Rhs[0])
					if se, ok := r.(*ast.SliceExpr); ok && se.Low == nil && se.High != nil {
						if tv, ok := info.Types[se.High]; ok && tv.Value != nil && tv.Value.String() == "0" && mentions(se.X, obj, info) {
							return true, ""
						}
					}
					if !mentions(as.Rhs[0], obj, info) {
						// the new contents must not be carved out of another caller-supplied slice: two results that
						// share one backing array overwrite each other when they are appended to
						for _, f := range fd.Type.Params.List {
							for _, n := range f.Names {
								po := info.Defs[n]
								if po == nil || po == obj {
									continue
								}
								t := po.Type()
								if pt, ok := t.Underlying().(*types.Pointer); ok {
									t = pt.Elem()
								}
								if sliceLike(t) && mentions(as.Rhs[0], po, info) {
									return false, "takes over the storage of parameter " + n.Name + " at " + w.eff.pos(s)
								}
							}
						}
						return true, ""
					}
					return false, "old contents used at " + w.eff.pos(s)
				}
			}
		}
		// P.Clear()
		var call *ast.CallExpr
		switch x := s.(type) {
		case *ast.ExprStmt:
			call, _ = x.X.(*ast.CallExpr)
		case *ast.AssignStmt:
			if len(x.Rhs) == 1 {
				call, _ = ast.Unparen(x.Rhs[0]).(*ast.CallExpr)
				for _, l := range x.Lhs {
					if mentions(l, obj, info) {
						return false, "used at " + w.eff.pos(s)
					}
				}
			}
		case *ast.ReturnStmt:
			if len(x.Results) == 1 {
				call, _ = ast.Unparen(x.Results[0]).(*ast.CallExpr)
			}
		}
		if call != nil {
			if se, ok := call.Fun.(*ast.SelectorExpr); ok && se.Sel.Name == "Clear" {
				if id, ok := ast.Unparen(se.X).(*ast.Ident); ok && info.Uses[id] == obj {
					return true, ""
				}
			}
			// P passed on as a plain argument to a callee that itself replaces it
			cnt := 0
			argIdx := -1
			for i, a := range call.Args {
				if id, ok := ast.Unparen(a).(*ast.Ident); ok && info.Uses[id] == obj {
					argIdx = i
					cnt++
				} else if mentions(a, obj, info) {
					return false, "used at " + w.eff.pos(s)
				}
			}
			if mentions(call.Fun, obj, info) {
				return false, "used at " + w.eff.pos(s)
			}
			if cnt == 1 {
				var o types.Object
				switch f := ast.Unparen(call.Fun).(type) {
				case *ast.Ident:
					o = info.Uses[f]
				case *ast.SelectorExpr:
					o = info.Uses[f.Sel]
				}
				if fn, ok := o.(*types.Func); ok {
					if ck, ok := w.prog.FuncObj[fn.Origin()]; ok {
						cfd := w.prog.Funcs[ck]
						i := 0
						for _, f := range cfd.Type.Params.List {
							for _, n := range f.Names {
								if i == argIdx {
									return replacesParam(w, ck, n.Name, active)
								}
								i++
							}
						}
					}
				}
				return false, "passed to an unknown callee at " + w.eff.pos(s)
			}
		}
		return false, "used at " + w.eff.pos(s)
	}
	scan = func(list []ast.Stmt) (bool, string) {
		for _, s := range list {
			if !mentions(s, obj, info) {
				if _, isRet := s.(*ast.ReturnStmt); isRet {
					return true, "" // returns without touching it on this path
				}
				continue
			}
			switch x := s.(type) {
			case *ast.IfStmt:
				if (x.Init != nil && mentions(x.Init, obj, info)) || mentions(x.Cond, obj, info) {
					return false, "used in condition at " + w.eff.pos(s)
				}
				c1, b1 := scan(x.Body.List)
				if b1 != "" {
					return false, b1
				}
				c2 := false
				if x.Else != nil {
					var b2 string
					switch e := x.Else.(type) {
					case *ast.BlockStmt:
						c2, b2 = scan(e.List)
					default:
						c2, b2 = scan([]ast.Stmt{e})
					}
					if b2 != "" {
						return false, b2
					}
				}
				if c1 && c2 {
					return true, ""
				}
				continue
			case *ast.BlockStmt:
				c, b := scan(x.List)
				if b != "" {
					return false, b
				}
				if c {
					return true, ""
				}
				continue
			}
			ok, why := clearsStmt(s)
			if ok {
				return true, ""
			}
			return false, why
		}
		return false, ""
	}
	cleared, bad := scan(fd.Body.List)
	if bad != "" {
		return false, bad
	}
	_ = cleared
	return true, ""
}

// ---------------------------------------------------------------- init-before-read

type initSummary struct {
	readFirst []string // sites where the field may be read before it was written
	mustWrite bool     // written on every path to a normal return
}

type initAnalysis struct {
	w      *World
	field  string // "clipperBase.succeeded"
	memo   map[string]*initSummary
	active map[string]bool
}

func (ia *initAnalysis) isField(e ast.Expr) bool {
	se, ok := ast.Unparen(e).(*ast.SelectorExpr)
	if !ok {
		return false
	}
	sel := ia.w.prog.Info.Selections[se]
	if sel == nil || sel.Kind() != types.FieldVal {
		return false
	}
	v, ok := sel.Obj().(*types.Var)
	if !ok {
		return false
	}
	parts := strings.SplitN(ia.field, ".", 2)
	if v.Name() != parts[1] {
		return false
	}
	// owner struct
	t := ia.w.prog.Info.Types[se.X].Type
	for _, idx := range sel.Index() {
		if p, ok := t.Underlying().(*types.Pointer); ok {
			t = p.Elem()
		}
		st, ok := t.Underlying().(*types.Struct)
		if !ok {
			return false
		}
		if idx == sel.Index()[len(sel.Index())-1] && st.Field(idx) == v {
			if n, ok := types.Unalias(t).(*types.Named); ok {
				return n.Obj().Name() == parts[0]
			}
		}
		t = st.Field(idx).Type()
	}
	return false
}

func (ia *initAnalysis) summary(key string) *initSummary {
	if s, ok := ia.memo[key]; ok {
		return s
	}
	if ia.active[key] {
		return &initSummary{}
	}
	ia.active[key] = true
	defer delete(ia.active, key)
	fd := ia.w.prog.Funcs[key]
	s := &initSummary{mustWrite: true}
	if fd == nil {
		s.mustWrite = false
		return s
	}
	anyReturn := false
	var stmts func(list []ast.Stmt, w bool) (bool, bool) // returns (written, terminated)
	var expr func(e ast.Node, w bool) bool
	expr = func(e ast.Node, w bool) bool {
		if e == nil {
			return w
		}
		// evaluation order approximated by source order
		ast.Inspect(e, func(n ast.Node) bool {
			switch x := n.(type) {
			case *ast.FuncLit:
				return false
			case *ast.SelectorExpr:
				if ia.isField(x) && !w {
					s.readFirst = append(s.readFirst, "read at "+ia.w.eff.pos(x)+" in "+key)
				}
			case *ast.CallExpr:
				for _, a := range x.Args {
					w = expr(a, w)
				}
				if se, ok := x.Fun.(*ast.SelectorExpr); ok {
					w = expr(se.X, w)
				}
				var o types.Object
				switch f := ast.Unparen(x.Fun).(type) {
				case *ast.Ident:
					o = ia.w.prog.Info.Uses[f]
				case *ast.SelectorExpr:
					o = ia.w.prog.Info.Uses[f.Sel]
				}
				if fn, ok := o.(*types.Func); ok {
					if ck, ok := ia.w.prog.FuncObj[fn.Origin()]; ok && !strings.HasPrefix(ck, "spec:") {
						cs := ia.summary(ck)
						if !w {
							for _, r := range cs.readFirst {
								s.readFirst = append(s.readFirst, r+" (called from "+key+" at "+ia.w.eff.pos(x)+")")
							}
						}
						if cs.mustWrite {
							w = true
						}
					}
				}
				return false
			}
			return true
		})
		return w
	}
	var stmt func(st ast.Stmt, w bool) (bool, bool)
	stmt = func(st ast.Stmt, w bool) (bool, bool) {
		switch x := st.(type) {
		case nil:
			return w, false
		case *ast.BlockStmt:
			return stmts(x.List, w)
		case *ast.AssignStmt:
			for _, r := range x.Rhs {
				w = expr(r, w)
			}
			for _, l := range x.Lhs {
				if ia.isField(l) {
					if x.Tok != token.ASSIGN && !w {
						s.readFirst = append(s.readFirst, "read-modify-write at "+ia.w.eff.pos(x)+" in "+key)
					}
					w = true
				} else {
					w = expr(l, w)
				}
			}
			return w, false
		case *ast.IncDecStmt:
			if ia.isField(x.X) {
				if !w {
					s.readFirst = append(s.readFirst, "read-modify-write at "+ia.w.eff.pos(x)+" in "+key)
				}
				return true, false
			}
			return expr(x.X, w), false
		case *ast.ExprStmt:
			return expr(x.X, w), false
		case *ast.DeclStmt:
			return expr(x, w), false
		case *ast.ReturnStmt:
			for _, r := range x.Results {
				w = expr(r, w)
			}
			anyReturn = true
			if !w {
				s.mustWrite = false
			}
			return w, true
		case *ast.IfStmt:
			if x.Init != nil {
				w, _ = stmt(x.Init, w)
			}
			w = expr(x.Cond, w)
			w1, t1 := stmts(x.Body.List, w)
			w2, t2 := w, false
			if x.Else != nil {
				w2, t2 = stmt(x.Else, w)
			}
			switch {
			case t1 && t2:
				return true, true
			case t1:
				return w2, false
			case t2:
				return w1, false
			}
			return w1 && w2, false
		case *ast.ForStmt:
			if x.Init != nil {
				w, _ = stmt(x.Init, w)
			}
			if x.Cond != nil {
				w = expr(x.Cond, w)
			}
			wb, _ := stmts(x.Body.List, w)
			if x.Post != nil {
				stmt(x.Post, wb)
			}
			if x.Cond == nil {
				// for {}: leaves only through break/return; be conservative
				return w, false
			}
			return w, false
		case *ast.RangeStmt:
			w = expr(x.X, w)
			stmts(x.Body.List, w)
			return w, false
		case *ast.SwitchStmt:
			if x.Init != nil {
				w, _ = stmt(x.Init, w)
			}
			if x.Tag != nil {
				w = expr(x.Tag, w)
			}
			all := true
			hasDefault := false
			for _, c := range x.Body.List {
				cc := c.(*ast.CaseClause)
				if cc.List == nil {
					hasDefault = true
				}
				for _, e := range cc.List {
					expr(e, w)
				}
				wc, tc := stmts(cc.Body, w)
				if !tc && !wc {
					all = false
				}
			}
			return w || (all && hasDefault), false
		case *ast.LabeledStmt:
			return stmt(x.Stmt, w)
		case *ast.BranchStmt:
			return w, true
		}
		return w, false
	}
	stmts = func(list []ast.Stmt, w bool) (bool, bool) {
		for _, st := range list {
			var t bool
			w, t = stmt(st, w)
			if t {
				return w, true
			}
		}
		return w, false
	}
	wEnd, term := stmts(fd.Body.List, false)
	if !term && !wEnd {
		s.mustWrite = false
	}
	_ = anyReturn
	ia.memo[key] = s
	return s
}

// addressTaken: position of the first place where the address of package-level variable obj is taken
// (&obj, &obj.f, obj[:] of an array, or a pointer-receiver method called on it); "" when there is none.
func (w *World) addressTaken(obj types.Object) string {
	info := w.prog.Info
	root := func(e ast.Expr) types.Object {
		for {
			switch x := ast.Unparen(e).(type) {
			case *ast.Ident:
				return info.Uses[x]
			case *ast.SelectorExpr:
				if sel := info.Selections[x]; sel != nil && sel.Indirect() {
					return nil
				}
				e = x.X
			case *ast.IndexExpr:
				if _, ok := info.TypeOf(x.X).Underlying().(*types.Array); !ok {
					return nil
				}
				e = x.X
			default:
				return nil
			}
		}
	}
	site := ""
	for _, f := range w.prog.Files {
		ast.Inspect(f, func(m ast.Node) bool {
			if site != "" {
				return false
			}
			switch x := m.(type) {
			case *ast.UnaryExpr:
				if x.Op == token.AND && root(x.X) == obj {
					site = w.eff.pos(x)
				}
			case *ast.SliceExpr:
				if _, ok := info.TypeOf(x.X).Underlying().(*types.Array); ok && root(x.X) == obj {
					site = w.eff.pos(x)
				}
			case *ast.CallExpr:
				if se, ok := ast.Unparen(x.Fun).(*ast.SelectorExpr); ok {
					if sel := info.Selections[se]; sel != nil && sel.Kind() == types.MethodVal {
						if fn, ok := sel.Obj().(*types.Func); ok {
							if recv := fn.Type().(*types.Signature).Recv(); recv != nil {
								if _, ptr := recv.Type().Underlying().(*types.Pointer); ptr && root(se.X) == obj {
									site = w.eff.pos(x)
								}
							}
						}
					}
				}
			}
			return true
		})
	}
	return site
}
