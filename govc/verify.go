package main

import (
	"fmt"
	"go/ast"
	"go/token"
	"go/types"
	"sort"
	"strings"
)

const maxInlineDepth = 8

func (fv *FnV) pushSubst(m map[*types.TypeParam]types.Type) {
	fv.tsubstStack = append(fv.tsubstStack, fv.smt.tsubst)
	if m != nil {
		n := map[*types.TypeParam]types.Type{}
		for k, v := range fv.smt.tsubst {
			n[k] = v
		}
		for k, v := range m {
			n[k] = fv.smt.resolve(v)
		}
		fv.smt.tsubst = n
	}
}

func (fv *FnV) popSubst() {
	fv.smt.tsubst = fv.tsubstStack[len(fv.tsubstStack)-1]
	fv.tsubstStack = fv.tsubstStack[:len(fv.tsubstStack)-1]
}

func (fv *FnV) autoInline(key string) bool {
	fe := fv.eff.F[key]
	if fe == nil {
		return false
	}
	return !fe.HasLoop && fe.NStmts <= 40
}

// callUser handles a call to a function of the package: inline or by contract.
func (fv *FnV) callUser(st *State, call *ast.CallExpr, key string, o *types.Func) []Val {
	info := fv.prog.Info
	fd := fv.prog.Funcs[key]
	sig := o.Type().(*types.Signature)
	osig := o.Origin().Type().(*types.Signature)
	fc := fv.prog.C.ByKey[key]
	// a variant V of the caller is checked against the callee's variant of the same name when there is
	// one (that variant is itself under proof); otherwise against the callee's default contract
	if fv.fc != nil && fv.fc.Variant != "" && len(fv.frames) == 1 {
		if vc := fv.prog.C.ByKey[key+"~"+fv.fc.Variant]; vc != nil {
			fc = vc
		}
	}

	// type arguments of generic callees
	var subst map[*types.TypeParam]types.Type
	if id := fv.calleeIdent(call.Fun); id != nil {
		if inst, ok := info.Instances[id]; ok && osig.TypeParams() != nil {
			subst = map[*types.TypeParam]types.Type{}
			for i := 0; i < osig.TypeParams().Len() && i < inst.TypeArgs.Len(); i++ {
				subst[osig.TypeParams().At(i)] = fv.smt.resolve(inst.TypeArgs.At(i))
			}
		}
	}

	var args []argInfo
	// receiver
	if osig.Recv() != nil {
		se, ok := ast.Unparen(call.Fun).(*ast.SelectorExpr)
		if !ok {
			fv.unsupported(call, "method expression call")
			return fv.havocResults(st, sig)
		}
		sel := info.Selections[se]
		rv := fv.eval(st, se.X)
		idx := sel.Index()
		for _, i := range idx[:len(idx)-1] {
			rv = fv.fieldOf(st, rv, i, se)
		}
		path := idx[:len(idx)-1]
		rt := fv.smt.resolve(osig.Recv().Type())
		_, wantPtr := rt.Underlying().(*types.Pointer)
		_, havePtr := fv.smt.resolve(rv.Ty).Underlying().(*types.Pointer)
		ai := argInfo{val: rv, expr: se.X}
		if wantPtr && !havePtr {
			if fv.smt.isHeapStruct(rv.Ty) {
				fv.unsupported(call, "address of heap struct value as receiver")
			}
			ai.val = Val{rv.T, types.NewPointer(rv.Ty)}
			base := se.X
			ai.writeback = func(s *State, v Val) {
				nv := Val{v.T, rv.Ty}
				if len(path) == 0 {
					fv.assign(s, base, nv)
				} else {
					fv.storePath(s, base, path, nv, se)
				}
			}
		} else if !wantPtr && havePtr {
			ai.val = fv.deref(st, rv, se)
		} else if wantPtr && havePtr && !fv.smt.isHeapPtr(rv.Ty) {
			// forwarded pointer-to-value
			base := se.X
			if len(path) == 0 {
				ai.writeback = func(s *State, v Val) { fv.assign(s, base, v) }
			}
		} else if wantPtr && havePtr && fv.smt.isHeapPtr(rv.Ty) {
			fv.oblige(st, "safe.nil", "recv:"+exprString(fv.prog.Fset, call.Fun), fmt.Sprintf("(not (= %s 0))", rv.T), call, nil)
		}
		args = append(args, ai)
	}
	// parameters
	np := osig.Params().Len()
	for i, a := range call.Args {
		var pt types.Type
		if i < np {
			pt = osig.Params().At(i).Type()
		}
		if osig.Variadic() && i >= np-1 && call.Ellipsis == token.NoPos {
			break // packed below
		}
		fv.pushSubst(subst)
		var v Val
		if pt != nil {
			v = fv.evalAs(st, a, pt)
		} else {
			v = fv.eval(st, a)
		}
		fv.popSubst()
		ai := argInfo{val: v, expr: a}
		if pt != nil {
			if p, ok := fv.smt.resolve(pt).Underlying().(*types.Pointer); ok && !fv.smt.isHeapPtr(p) {
				ae := ast.Unparen(a)
				if u, ok := ae.(*ast.UnaryExpr); ok && u.Op == token.AND {
					lv := u.X
					et := p.Elem()
					ai.writeback = func(s *State, v Val) { fv.assign(s, lv, Val{v.T, et}) }
				} else {
					ai.writeback = func(s *State, v Val) { fv.assign(s, ae, v) }
				}
			}
		}
		args = append(args, ai)
	}
	if osig.Variadic() && call.Ellipsis == token.NoPos {
		// pack the trailing arguments into a slice
		vt := fv.smt.resolve(osig.Params().At(np - 1).Type())
		sl := vt.Underlying().(*types.Slice)
		es := fv.smt.sortOf(sl.Elem())
		arr := fmt.Sprintf("((as const (Array Int %s)) %s)", es, fv.smt.zeroOf(sl.Elem()))
		cnt := 0
		for i := np - 1; i < len(call.Args); i++ {
			fv.pushSubst(subst)
			v := fv.evalAs(st, call.Args[i], sl.Elem())
			fv.popSubst()
			arr = fmt.Sprintf("(store %s %d %s)", arr, cnt, v.T)
			cnt++
		}
		nilT := "false"
		if cnt == 0 {
			nilT = "true"
		}
		args = append(args, argInfo{val: fv.nameVal("va", fv.mkSlice(vt, fmt.Sprintf("%d", cnt), arr, nilT))})
	}
	if st.dead {
		return fv.havocResults(st, sig)
	}
	if len(fv.frames) == 1 && !fv.spec {
		// remembered for call-anchored asserts (arg0, arg1, ...): declared parameters only
		vals := make([]Val, 0, len(args))
		for i, a := range args {
			if i == 0 && osig.Recv() != nil {
				continue
			}
			vals = append(vals, a.val)
		}
		if fv.callArgs == nil {
			fv.callArgs = map[*ast.CallExpr][]Val{}
		}
		fv.callArgs[call] = vals
	}

	if fv.fc != nil && fv.fc.Opaque[key] && len(fv.frames) == 1 && !fv.spec {
		fv.tag("callee-opaque-here:" + key)
		return fv.contractCall(st, call, key, fd, nil, sig, args, subst)
	}
	onStack := false
	for _, fr := range fv.frames {
		if fr.key == key {
			onStack = true
		}
	}
	inline := false
	if fc != nil && fc.hasSpec() {
		inline = fc.Inline
	} else {
		// no contract, or a bare safety stub: small loop-free helpers are expanded in place
		inline = fv.autoInline(key) || (fc != nil && fc.Inline)
	}
	if inline && !onStack && len(fv.frames) < maxInlineDepth && !fv.spec {
		return fv.inlineCall(st, call, key, fd, sig, args, subst)
	}
	if fv.spec {
		// calls of Go functions inside specifications: uninterpreted application
		return fv.pureApp(st, key, sig, args, subst)
	}
	return fv.contractCall(st, call, key, fd, fc, sig, args, subst)
}

func (fv *FnV) pureName(key string, subst map[*types.TypeParam]types.Type) string {
	n := "fn_" + sanitize(key)
	if len(subst) > 0 {
		var ts []string
		for _, t := range subst {
			ts = append(ts, sanitize(fv.smt.sortOf(t)))
		}
		sort.Strings(ts)
		n += "_" + strings.Join(ts, "_")
	}
	return n
}

func (fv *FnV) pureApp(st *State, key string, sig *types.Signature, args []argInfo, subst map[*types.TypeParam]types.Type) []Val {
	fv.pushSubst(subst)
	defer fv.popSubst()
	name := fv.pureName(key, subst)
	var sorts, as []string
	for _, a := range args {
		sorts = append(sorts, fv.smt.sortOf(a.val.Ty))
		as = append(as, a.val.T)
	}
	var out []Val
	for i := 0; i < sig.Results().Len(); i++ {
		rt := fv.smt.resolve(sig.Results().At(i).Type())
		fn := name
		if sig.Results().Len() > 1 {
			fn = fmt.Sprintf("%s_%d", name, i)
		}
		fv.smt.declareFun(fn, fmt.Sprintf("(declare-fun %s (%s) %s)", fn, strings.Join(sorts, " "), fv.smt.sortOf(rt)))
		if len(as) == 0 {
			out = append(out, Val{fn, rt})
		} else {
			out = append(out, Val{fmt.Sprintf("(%s %s)", fn, strings.Join(as, " ")), rt})
		}
	}
	return out
}

func (fv *FnV) bindParams(st *State, fd *ast.FuncDecl, args []argInfo) []types.Object {
	info := fv.prog.Info
	var objs []types.Object
	add := func(fl *ast.FieldList) {
		if fl == nil {
			return
		}
		for _, f := range fl.List {
			if len(f.Names) == 0 {
				objs = append(objs, nil)
				continue
			}
			for _, n := range f.Names {
				objs = append(objs, info.Defs[n])
			}
		}
	}
	add(fd.Recv)
	add(fd.Type.Params)
	for i, o := range objs {
		if o == nil || i >= len(args) {
			continue
		}
		st.vars[o] = Val{fv.name(o.Name(), args[i].val.T, fv.smt.sortOf(args[i].val.Ty)), fv.smt.resolve(o.Type())}
	}
	return objs
}

func (fv *FnV) newFrame(st *State, fd *ast.FuncDecl, key string) *frame {
	info := fv.prog.Info
	fr := &frame{fd: fd, key: key}
	if fd.Type.Results != nil {
		i := 0
		for _, f := range fd.Type.Results.List {
			if len(f.Names) == 0 {
				t := info.Types[f.Type].Type
				fr.results = append(fr.results, types.NewVar(fd.Pos(), fv.prog.Pkg, fmt.Sprintf("__ret%d_%s", i, sanitize(key)), t))
				i++
				continue
			}
			for _, n := range f.Names {
				o := info.Defs[n]
				fr.results = append(fr.results, o)
				st.vars[o] = Val{fv.smt.zeroOf(o.Type()), fv.smt.resolve(o.Type())}
				i++
			}
		}
	}
	return fr
}

// finishFrame merges the return states of the top frame; result values are left in
// the frame's result variables.
func (fv *FnV) finishFrame(end *State) *State {
	fr := fv.cur()
	if !end.dead {
		var vals []Val
		for _, r := range fr.results {
			v, ok := end.vars[r]
			if !ok {
				v = Val{fv.smt.zeroOf(r.Type()), r.Type()}
			}
			vals = append(vals, v)
		}
		fr.rets = append(fr.rets, &retState{st: end, vals: vals, pos: fr.fd.Body.Rbrace})
	}
	var sts []*State
	for _, r := range fr.rets {
		for i, o := range fr.results {
			if i < len(r.vals) {
				r.st.vars[o] = Val{r.vals[i].T, fv.smt.resolve(o.Type())}
			}
		}
		sts = append(sts, r.st)
	}
	return fv.merge(sts)
}

func (fv *FnV) inlineCall(st *State, call *ast.CallExpr, key string, fd *ast.FuncDecl, sig *types.Signature, args []argInfo, subst map[*types.TypeParam]types.Type) []Val {
	fv.inlined[key] = true
	fv.pushSubst(subst)
	defer fv.popSubst()
	fr := fv.newFrame(st, fd, key)
	objs := fv.bindParams(st, fd, args)
	fv.frames = append(fv.frames, fr)
	savePrefix := fv.prefix
	fv.prefix = fv.prefix + "in:" + key + "/"
	end := fv.execBlock(st, fd.Body.List)
	merged := fv.finishFrame(end)
	fv.prefix = savePrefix
	fv.frames = fv.frames[:len(fv.frames)-1]
	*st = *merged
	if st.dead {
		return fv.havocResults(st, sig)
	}
	var out []Val
	for _, r := range fr.results {
		out = append(out, st.vars[r])
	}
	// write back pointer-to-value parameters
	for i, a := range args {
		if a.writeback != nil && i < len(objs) && objs[i] != nil {
			if v, ok := st.vars[objs[i]]; ok && v.T != a.val.T {
				a.writeback(st, v)
			}
		}
	}
	return out
}

func (fv *FnV) contractCall(st *State, call *ast.CallExpr, key string, fd *ast.FuncDecl, fc *FuncContract, sig *types.Signature, args []argInfo, subst map[*types.TypeParam]types.Type) []Val {
	fv.pushSubst(subst)
	defer fv.popSubst()
	info := fv.prog.Info
	fe := fv.eff.F[key]
	// names of receiver and parameters
	var names []string
	addNames := func(fl *ast.FieldList, prefix string) {
		if fl == nil {
			return
		}
		cnt := 0
		for _, f := range fl.List {
			if len(f.Names) == 0 {
				names = append(names, fmt.Sprintf("%s%d", prefix, cnt))
				cnt++
				continue
			}
			for _, n := range f.Names {
				nm := n.Name
				if nm == "_" {
					nm = fmt.Sprintf("%s%d", prefix, cnt)
				}
				names = append(names, nm)
				cnt++
			}
		}
	}
	addNames(fd.Recv, "_recv")
	addNames(fd.Type.Params, "_p")
	_ = info
	pre := map[string]Val{}
	for i, n := range names {
		if i < len(args) {
			pre[n] = args[i].val
		}
	}
	short := key
	if fc != nil {
		fv.calledContracts[fc.Key()] = true
		for i, cl := range fc.Requires {
			g := fv.evalWithEnv(st, cl, pre, pre, st)
			lab := cl.Label
			if lab == "" {
				lab = fmt.Sprintf("%d", i)
			}
			fv.oblige(st, fmt.Sprintf("call@%s.requires[%s]", short, lab), "", g, call, cl)
		}
		if fc.Panics != nil {
			p := fv.evalWithEnv(st, fc.Panics, pre, pre, st)
			if fv.fc != nil && fv.fc.Panics != nil && len(fv.frames) == 1 {
				mine := fv.evalClauseEntry(st, fv.fc.Panics)
				fv.oblige(st, fmt.Sprintf("call@%s.panics-covered", short), "", fmt.Sprintf("(=> %s %s)", p, mine), call, fc.Panics)
			} else if fv.fc == nil || !fv.fc.MayPanic || len(fv.frames) != 1 {
				fv.oblige(st, fmt.Sprintf("call@%s.nopanic", short), "", not(p), call, fc.Panics)
			}
			st.assume(not(p))
		}
	}
	oldSt := st.clone()
	// havoc what the callee may write
	if fe != nil {
		for _, k := range fe.sortedWrites() {
			fv.heapGet(st, k)
			st.heap[k] = fv.fresh("H_"+k, fv.heapSort(k))
			if hs := fv.heapSort(k); strings.HasPrefix(hs, "(Array Int Slice_") {
				// a havocked slice-valued field still holds slices: their length is never negative
				sl := strings.TrimSuffix(strings.TrimPrefix(hs, "(Array Int "), ")")
				fv.decls = append(fv.decls, fmt.Sprintf("(assert (forall ((r!q Int)) (! (>= (len_%s (select %s r!q)) 0) :pattern ((select %s r!q)))))", sl, st.heap[k], st.heap[k]))
			}
		}
		if fe.Allocates {
			old := fv.heapGet(st, "$alloc")
			na := fv.fresh("alloc", "(Array Int Bool)")
			st.heap["$alloc"] = na
			// a fact about the fresh array itself (objects are never de-allocated): asserted globally, so it also
			// holds on merged paths on which the call is guarded by a short-circuit operand
			fv.decls = append(fv.decls, fmt.Sprintf("(assert (forall ((r!q Int)) (! (=> (select %s r!q) (select %s r!q)) :pattern ((select %s r!q)))))", old, na, na))
		}
	}
	post := map[string]Val{}
	for k, v := range pre {
		post[k] = v
	}
	for i, a := range args {
		if a.writeback == nil || i >= len(names) {
			continue
		}
		if fe != nil && !fe.ParamWrites[i-boolToInt(fd.Recv != nil)] {
			continue
		}
		nv := fv.freshVal(names[i], a.val.Ty, st)
		post[names[i]] = nv
	}
	// results
	var results []Val
	if fc != nil && fc.Pure {
		results = fv.pureApp(st, key, sig, args, subst)
		for i := range results {
			results[i] = fv.nameVal("r_"+key, results[i])
			for _, f := range fv.smt.rangeFacts(results[i].T, results[i].Ty, 0) {
				st.assume(f)
			}
		}
	} else {
		for i := 0; i < sig.Results().Len(); i++ {
			rv := fv.freshVal("r_"+key, sig.Results().At(i).Type(), st)
			if fv.smt.isHeapPtr(rv.Ty) {
				st.assume(fmt.Sprintf("(or (= %s 0) (select %s %s))", rv.T, fv.heapGet(st, "$alloc"), rv.T))
			}
			results = append(results, rv)
		}
	}
	if fc != nil {
		// result names
		n := len(results)
		if fd.Type.Results != nil {
			i := 0
			for _, f := range fd.Type.Results.List {
				k := len(f.Names)
				if k == 0 {
					k = 1
				}
				for j := 0; j < k; j++ {
					nm := "result"
					if n > 1 {
						nm = fmt.Sprintf("result%d", i)
					}
					post[nm] = results[i]
					if len(f.Names) > 0 && f.Names[j].Name != "_" {
						post[f.Names[j].Name] = results[i]
					}
					i++
				}
			}
		}
		// which of the callee's returns was taken is not known to the caller
		post["returnIndex"] = fv.freshVal("retidx", types.Typ[types.Int], st)
		for _, cl := range fc.Ensures {
			if cl.Kind == "expect" {
				continue
			}
			g := fv.evalWithEnv(st, cl, post, pre, oldSt)
			st.assume(fv.name("ens", g, "Bool"))
		}
		if fc.Trusted {
			fv.tag("trusted-contract:" + key)
		}
	} else {
		fv.tag("no-contract-callee-havocked:" + key)
	}
	for i, a := range args {
		if a.writeback != nil && i < len(names) {
			if nv, ok := post[names[i]]; ok && nv.T != a.val.T {
				a.writeback(st, nv)
			}
		}
	}
	return results
}

func boolToInt(b bool) int {
	if b {
		return 1
	}
	return 0
}

// ---------------------------------------------------------------- function driver

type FuncResult struct {
	Key        string
	Inst       string
	VCs        []*VC
	Outside    []string
	Tags       []string
	Inlined    []string
	Called     []string
	Decls      []string
	Contract   *FuncContract
	Subst      map[*types.TypeParam]types.Type
}

// VerifyFunc generates the obligations of one function (one instantiation).
func VerifyFunc(prog *Program, smt *SMT, eff *Effects, key string, fc *FuncContract, subst map[*types.TypeParam]types.Type, instName string, noPatterns ...bool) *FuncResult {
	fd := prog.Funcs[key]
	fv := &FnV{prog: prog, smt: smt, eff: eff, key: key, fc: fc, fd: fd, tags: map[string]bool{}, counters: map[string]int{},
		inlined: map[string]bool{}, calledContracts: map[string]bool{}, instName: instName}
	if len(noPatterns) > 0 && noPatterns[0] {
		fv.noPatterns = true
	}
	if fc != nil && fc.Arith == "wrap" {
		fv.wrap = true
	}
	if fc != nil && fc.Arith == "math" {
		// counters bounded by memory (list length, tree depth): treated as mathematical integers
		fv.mathInts = true
		fv.tag("arith-math: integer counters of " + key + " cannot overflow (bounded by the number of heap objects)")
	}
	if fc != nil && fc.PanicFree {
		fv.noF2I = true
	}
	if fc != nil && fc.FloatsRounded {
		fv.fround = true
		fv.tag("floats-rounded: float64 +,-,*,/ modelled as exact result times (1+e), |e| <= 2^-53 (round to nearest; no overflow to infinity, no underflow, no NaN)")
	}
	if fc != nil && fc.Arith == "wrapu" {
		fv.wrapUnsigned = true
	}
	smt.tsubst = subst
	defer func() { smt.tsubst = nil }()
	st := &State{vars: map[types.Object]Val{}, heap: map[string]string{}}
	fr := fv.newFrame(st, fd, key)
	fv.frames = []*frame{fr}
	info := prog.Info
	// symbolic parameters
	bind := func(fl *ast.FieldList, isRecv bool) {
		if fl == nil {
			return
		}
		for _, f := range fl.List {
			for _, n := range f.Names {
				o := info.Defs[n]
				if o == nil {
					continue
				}
				v := fv.freshVal(n.Name, o.Type(), st)
				st.vars[o] = v
				if fv.smt.isHeapPtr(v.Ty) {
					st.assume(fmt.Sprintf("(or (= %s 0) (select %s %s))", v.T, fv.heapGet(st, "$alloc"), v.T))
					if isRecv {
						st.assume(fmt.Sprintf("(not (= %s 0))", v.T))
						fv.tag("receiver-non-nil")
					}
				}
			}
		}
	}
	bind(fd.Recv, true)
	bind(fd.Type.Params, false)
	fv.entry = st.clone()
	if fc != nil {
		fv.assertAt = map[ast.Stmt][]*AssertClause{}
		for _, ac := range fc.Asserts {
			if s := assignStmtOf(fd.Body, ac.Var, ac.Occ); s != nil {
				fv.assertAt[s] = append(fv.assertAt[s], ac)
			}
		}
		for _, cl := range fc.Requires {
			g := fv.evalClauseEntry(st, cl)
			st.assume(fv.name("req", g, "Bool"))
		}
		for _, cl := range fc.Assumes {
			g := fv.evalClauseEntry(st, cl)
			st.assume(fv.name("asm", g, "Bool"))
			fv.tag("assumed-precondition (not checked at call sites) " + key + ": " + cl.Text)
		}
	}
	fv.entry = st.clone()
	// vacuity cover: the preconditions are satisfiable
	if fc != nil && len(fc.Requires) > 0 {
		fv.oblige(st, "cover.requires", "", "false", fd, nil)
		fv.vcs[len(fv.vcs)-1].MustFail = true
	}
	end := fv.execBlock(st, fd.Body.List)
	if !end.dead {
		var vals []Val
		for _, r := range fr.results {
			v, ok := end.vars[r]
			if !ok {
				v = Val{fv.smt.zeroOf(r.Type()), r.Type()}
			}
			vals = append(vals, v)
		}
		fr.rets = append(fr.rets, &retState{st: end, vals: vals, pos: fd.Body.Rbrace})
	}
	// postconditions at every return
	if fc != nil {
		nres := len(fr.results)
		for ri, r := range fr.rets {
			extra := map[string]Val{}
			if fd.Type.Results != nil {
				i := 0
				for _, f := range fd.Type.Results.List {
					k := len(f.Names)
					if k == 0 {
						k = 1
					}
					for j := 0; j < k; j++ {
						nm := "result"
						if nres > 1 {
							nm = fmt.Sprintf("result%d", i)
						}
						extra[nm] = r.vals[i]
						if len(f.Names) > 0 && f.Names[j].Name != "_" {
							extra[f.Names[j].Name] = r.vals[i]
						}
						i++
					}
				}
			}
			// parameters denote entry values, except pointer-to-value parameters (final pointee)
			for name, obj := range fv.frameVars(fr) {
				if _, isRes := extra[name]; isRes {
					continue
				}
				ev, ok := fv.entry.vars[obj]
				if !ok {
					continue
				}
				if p, isPtr := fv.smt.resolve(obj.Type()).Underlying().(*types.Pointer); isPtr && !fv.smt.isHeapPtr(p) {
					if cv, ok := r.st.vars[obj]; ok {
						extra[name] = cv
						continue
					}
				}
				extra[name] = ev
			}
			extra["returnIndex"] = Val{fmt.Sprintf("%d", returnOrdinal(fd, r.pos)), types.Typ[types.Int]}
			for i, cl := range fc.Ensures {
				g := fv.evalClause(r.st, cl, nil, extra)
				lab := cl.Label
				if lab == "" {
					lab = fmt.Sprintf("%d", i)
				}
				fv.oblige(r.st, fmt.Sprintf("%s[%s]", cl.Kind, lab), fmt.Sprintf("ret%d", ri), g, nodeAt(r.pos), cl)
			}
			if fc.Panics != nil {
				g := fv.evalClauseEntry(r.st, fc.Panics)
				fv.oblige(r.st, "panics.whenever", fmt.Sprintf("ret%d", ri), not(g), nodeAt(r.pos), fc.Panics)
			}
		}
		// vacuity cover: some return is reachable
		if len(fr.rets) > 0 && len(fc.Ensures) > 0 {
			var sts []*State
			for _, r := range fr.rets {
				sts = append(sts, r.st.clone())
			}
			m := fv.merge(sts)
			fv.oblige(m, "cover.return", "", "false", fd, nil)
			fv.vcs[len(fv.vcs)-1].MustFail = true
		}
	}
	res := &FuncResult{Key: key, Inst: instName, VCs: fv.vcs, Outside: fv.outside, Decls: fv.decls, Contract: fc, Subst: subst}
	for t := range fv.tags {
		res.Tags = append(res.Tags, t)
	}
	sort.Strings(res.Tags)
	for k := range fv.inlined {
		res.Inlined = append(res.Inlined, k)
	}
	sort.Strings(res.Inlined)
	for k := range fv.calledContracts {
		res.Called = append(res.Called, k)
	}
	sort.Strings(res.Called)
	for _, vc := range fv.vcs {
		vc.Tags = res.Tags
	}
	return res
}

type posNode token.Pos

func (p posNode) Pos() token.Pos { return token.Pos(p) }
func (p posNode) End() token.Pos { return token.Pos(p) }
func nodeAt(p token.Pos) ast.Node { return posNode(p) }

// returnOrdinal: the source-order index of the return statement at pos among the function's own return statements
// (function literals excluded); the closing brace gets the number after the last one
func returnOrdinal(fd *ast.FuncDecl, pos token.Pos) int {
	n := 0
	found := -1
	ast.Inspect(fd.Body, func(m ast.Node) bool {
		switch x := m.(type) {
		case *ast.FuncLit:
			return false
		case *ast.ReturnStmt:
			if x.Pos() == pos {
				found = n
			}
			n++
		}
		return true
	})
	if found < 0 {
		return n
	}
	return found
}
