package main

// Bounded stand-ins (DESIGN 2.9): exhaustive enumeration of a stated finite domain
// against an integer oracle, run against the real code through an overlay test.
// Labelled bounded and never counted as proved.
//
// Each stand-in is a Go test file under /verif/bounded/ with a header:
//   // prop: C15
//   // tier: quick | thorough
//   // name: TrimCollinear64.closed-clauses
//   // what: ...
//   // bound: ...
//   // sampled: names of sub-checks that sample their domain pseudo-randomly (not exhaustive)
// The test prints  VERIF-BOUNDED <name> cases=<n>  and, per failing case (at most a few),
// VERIF-BOUNDED-FAIL <name> <description of the input>.

import (
	"fmt"
	"os"
	"path/filepath"
	"regexp"
	"sort"
	"strconv"
	"strings"
)

type BoundedResult struct {
	Name       string
	What       string
	Bound      string
	Cases      int
	Exhaustive bool
	Failures   []string
	Ran        bool
}

var hdrRe = regexp.MustCompile(`(?m)^// (prop|tier|name|what|bound|sampled|race): (.*)$`)

func runBounded(w *World, prop, tier string, seed int, dir string) []*BoundedResult {
	files, _ := filepath.Glob("/verif/bounded/*.go")
	sort.Strings(files)
	var sel []string
	race := false
	byName := map[string]*BoundedResult{}
	var order []*BoundedResult
	for _, f := range files {
		b, err := os.ReadFile(f)
		if err != nil {
			continue
		}
		h := map[string]string{}
		for _, m := range hdrRe.FindAllStringSubmatch(string(b), -1) {
			if _, dup := h[m[1]]; !dup {
				h[m[1]] = strings.TrimSpace(m[2])
			}
		}
		if hasProp(strings.Fields(h["prop"]), "ALL") {
			sel = append(sel, f) // shared helpers, no sub-checks of their own
			continue
		}
		if !hasProp(strings.Fields(h["prop"]), prop) {
			continue
		}
		if h["tier"] == "thorough" && tier != "thorough" {
			continue
		}
		sel = append(sel, f)
		if h["race"] == "true" {
			race = true
		}
		for _, n := range strings.Fields(h["name"]) {
			br := &BoundedResult{Name: "bounded:" + n, What: h["what"], Bound: h["bound"], Exhaustive: !hasProp(strings.Fields(h["sampled"]), n)}
			byName[n] = br
			order = append(order, br)
		}
	}
	if len(order) == 0 {
		return nil
	}
	os.Setenv("VERIF_SEED", strconv.Itoa(seed))
	os.Setenv("VERIF_TIER", tier)
	overlayRace = race
	defer func() { overlayRace = false }()
	_, out := runOverlayTests(w, []overlayTest{{Name: "VerifNoop", Body: "\t\tfmt.Println(\"VERIF-RESULT VerifNoop pass\")"}}, filepath.Join(outRoot, prop, "bounded"), sel...)
	for _, l := range strings.Split(out, "\n") {
		l = strings.TrimSpace(l)
		if strings.HasPrefix(l, "VERIF-BOUNDED-FAIL ") {
			f := strings.SplitN(l, " ", 3)
			if br := byName[f[1]]; br != nil && len(f) == 3 {
				br.Failures = append(br.Failures, f[2])
			}
		} else if strings.HasPrefix(l, "VERIF-BOUNDED ") {
			f := strings.Fields(l)
			if br := byName[f[1]]; br != nil {
				br.Ran = true
				for _, kv := range f[2:] {
					if strings.HasPrefix(kv, "cases=") {
						br.Cases, _ = strconv.Atoi(kv[6:])
					}
				}
			}
		}
	}
	if race && strings.Contains(out, "WARNING: DATA RACE") {
		for _, br := range order {
			br.Failures = append(br.Failures, "the race detector reported a data race: "+firstLines(out[strings.Index(out, "WARNING: DATA RACE"):], 12))
		}
	}
	for _, br := range order {
		if !br.Ran {
			br.Failures = append(br.Failures, "bounded stand-in did not run (build or run-time failure): "+firstLines(tailLines(out, 15), 15))
		}
	}
	return order
}

func tailLines(s string, n int) string {
	ls := strings.Split(strings.TrimSpace(s), "\n")
	if len(ls) > n {
		ls = ls[len(ls)-n:]
	}
	return strings.Join(ls, "\n")
}

var _ = fmt.Sprint
