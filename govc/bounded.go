package main

// Bounded stand-ins (DESIGN 2.9): exhaustive enumeration of a stated finite domain
// against an integer oracle, run against the real code through an overlay test.
// Labelled bounded and never counted as proved.

type BoundedResult struct {
	Name       string
	What       string
	Bound      string
	Cases      int
	Exhaustive bool
	Failures   []string
}

func runBounded(w *World, prop, tier string, seed int, dir string) []*BoundedResult {
	return nil
}
