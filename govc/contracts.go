package main

// Contract file parser.  Contracts live in /repo/contracts_verif.go as //@ comment
// lines (the file is comment-only and guarded by the build tag "verif").
//
// Grammar (one item per //@ line, continuation lines are lines whose first word is
// not a keyword):
//
//   spec NAME(params) RET = EXPR
//   axiom NAME: EXPR
//   lemma NAME: EXPR
//   func NAME [variant V]
//     props C14 C15 | tier A|B | arith exact|wrap | pure | inline | trusted | opaque
//     requires [label] EXPR | ensures [label] EXPR | panics EXPR
//     modifies TARGET, TARGET ...
//     loop K invariant [label] EXPR | loop K decreases EXPR | loop K modifies ...
//     known OBLIGATION-SUFFIX : finding id

import (
	"bufio"
	"fmt"
	"os"
	"regexp"
	"strings"
)

type Clause struct {
	Kind   string // requires, ensures, invariant, decreases, panics, axiom, lemma, assert
	Label  string
	Props  []string // clause-level property override (optional)
	Text   string
	Line   int
	ID     int    // global index, names the synthetic clause function
	Loop   string // loop path for invariant/decreases
	FnName string // synthesized Go function name
}

type LoopContract struct {
	Path       string
	Invariants []*Clause
	Steps      []*Clause
	Entries    []*Clause // checked where the loop is reached; not assumed inside or after it
	Decreases  *Clause
	Modifies   []string
}

type FuncContract struct {
	Name     string // Func or Recv.Method
	Variant  string
	Props    []string
	Tier     string
	Arith    string
	FloatsRounded bool
	Pure     bool
	Inline   bool
	Trusted  bool // contract assumed, body not verified (listed as assumption)
	NoSafety bool
	MayPanic bool
	PanicFree bool
	Budget   int // solver seconds per obligation (0 = tier default)
	Forget   map[string]bool
	Opaque   map[string]bool // callees treated as opaque inside this function: havocked, contract neither checked nor assumed
	FrameOnly bool // only frame/initialisation obligations (no SMT obligations are generated)
	Requires []*Clause
	Assumes  []*Clause
	Ensures  []*Clause
	Panics   *Clause
	Modifies []string
	Loops    map[string]*LoopContract
	Line     int
	Ghosts   []string
	Asserts  []*AssertClause
}

// AssertClause: an intermediate assertion placed after the k-th assignment to a variable
// (proved as an obligation, then available as a fact).
type AssertClause struct {
	Var string
	Occ int
	Cl  *Clause
}

// hasSpec: does the contract say anything a caller could use or must establish?
func (fc *FuncContract) hasSpec() bool {
	return len(fc.Requires) > 0 || len(fc.Ensures) > 0 || len(fc.Assumes) > 0 || fc.Panics != nil || fc.Pure || fc.Trusted
}

func (fc *FuncContract) Key() string {
	if fc.Variant != "" {
		return fc.Name + "~" + fc.Variant
	}
	return fc.Name
}

type SpecFunc struct {
	Name   string
	Params string
	Ret    string
	Body   string
	Line   int
	Opaque bool // declared without body: uninterpreted
}

type Contracts struct {
	Specs   []*SpecFunc
	Axioms  []*Clause
	Lemmas  []*Clause
	Funcs   []*FuncContract
	ByKey   map[string]*FuncContract
	Clauses []*Clause
	File    string
}

var keywordRe = regexp.MustCompile(`^(spec|axiom|lemma|func|props|tier|arith|pure|inline|trusted|nosafety|requires|ensures|expect|panics|modifies|loop|ghost|assert|replaces|initfields|frameonly|budget|panicfree|assumes|maypanic|floats|forget|opaque)\b`)
var labelRe = regexp.MustCompile(`^\[([A-Za-z0-9_.\-]+)\]\s*`)

func (c *Contracts) newClause(kind, text string, line int) *Clause {
	cl := &Clause{Kind: kind, Line: line, ID: len(c.Clauses)}
	text = strings.TrimSpace(text)
	if m := labelRe.FindStringSubmatch(text); m != nil {
		cl.Label = m[1]
		text = text[len(m[0]):]
	}
	cl.Text = text
	cl.FnName = fmt.Sprintf("__c_%d", cl.ID)
	c.Clauses = append(c.Clauses, cl)
	return cl
}

func ParseContracts(path string) (*Contracts, error) {
	f, err := os.Open(path)
	if err != nil {
		return nil, err
	}
	defer f.Close()
	c := &Contracts{ByKey: map[string]*FuncContract{}, File: path}
	type item struct {
		text string
		line int
	}
	var items []item
	sc := bufio.NewScanner(f)
	sc.Buffer(make([]byte, 1<<20), 1<<20)
	ln := 0
	for sc.Scan() {
		ln++
		l := strings.TrimSpace(sc.Text())
		if !strings.HasPrefix(l, "//@") {
			continue
		}
		l = strings.TrimSpace(l[3:])
		if l == "" || strings.HasPrefix(l, "#") {
			continue
		}
		// strip trailing "// comment"
		if i := strings.Index(l, " // "); i >= 0 {
			l = strings.TrimSpace(l[:i])
		}
		if keywordRe.MatchString(l) {
			items = append(items, item{l, ln})
		} else if len(items) > 0 {
			items[len(items)-1].text += " " + l
		} else {
			return nil, fmt.Errorf("%s:%d: continuation without item", path, ln)
		}
	}
	var cur *FuncContract
	for _, it := range items {
		word, rest := splitWord(it.text)
		switch word {
		case "spec":
			sf, err := parseSpec(rest, it.line)
			if err != nil {
				return nil, fmt.Errorf("%s:%d: %v", path, it.line, err)
			}
			c.Specs = append(c.Specs, sf)
			cur = nil
		case "axiom", "lemma":
			i := strings.Index(rest, ":")
			if i < 0 {
				return nil, fmt.Errorf("%s:%d: %s needs NAME: EXPR", path, it.line, word)
			}
			cl := c.newClause(word, rest[i+1:], it.line)
			hd := strings.Fields(rest[:i])
			if len(hd) == 0 {
				return nil, fmt.Errorf("%s:%d: %s needs a name", path, it.line, word)
			}
			cl.Label = hd[0]
			// lemma NAME props C16 C13 tier B: EXPR
			for k := 1; k < len(hd); k++ {
				if hd[k] == "props" || hd[k] == "tier" {
					continue
				}
				if hd[k] == "A" || hd[k] == "B" {
					cl.Loop = hd[k] // tier stored in Loop for lemmas
					continue
				}
				cl.Props = append(cl.Props, hd[k])
			}
			if word == "axiom" {
				c.Axioms = append(c.Axioms, cl)
			} else {
				c.Lemmas = append(c.Lemmas, cl)
			}
			cur = nil
		case "func":
			fs := strings.Fields(rest)
			if len(fs) == 0 {
				return nil, fmt.Errorf("%s:%d: func needs a name", path, it.line)
			}
			cur = &FuncContract{Name: fs[0], Loops: map[string]*LoopContract{}, Line: it.line, Tier: "A", Arith: "exact"}
			if len(fs) >= 3 && fs[1] == "variant" {
				cur.Variant = fs[2]
			}
			if _, dup := c.ByKey[cur.Key()]; dup {
				return nil, fmt.Errorf("%s:%d: duplicate contract for %s", path, it.line, cur.Key())
			}
			c.Funcs = append(c.Funcs, cur)
			c.ByKey[cur.Key()] = cur
		default:
			if cur == nil {
				return nil, fmt.Errorf("%s:%d: %q outside func block", path, it.line, word)
			}
			switch word {
			case "props":
				cur.Props = strings.Fields(rest)
			case "tier":
				cur.Tier = strings.TrimSpace(rest)
			case "arith":
				cur.Arith = strings.TrimSpace(rest)
			case "floats":
				// floats rounded: every float64 +,-,*,/ of the body carries a relative rounding error of at
				// most 2^-53 (IEEE round-to-nearest) instead of being exact real arithmetic
				cur.FloatsRounded = strings.TrimSpace(rest) == "rounded"
			case "pure":
				cur.Pure = true
			case "inline":
				cur.Inline = true
			case "trusted":
				cur.Trusted = true
			case "nosafety":
				cur.NoSafety = true
			case "frameonly":
				cur.FrameOnly = true
			case "forget":
				// forget v...: after every assignment the local v is replaced by an unconstrained value of its
				// type (a sound weakening: what is proved for every value holds for the computed one); used
				// to keep a large nonlinear definition out of obligations that only need the branch conditions
				if cur.Forget == nil {
					cur.Forget = map[string]bool{}
				}
				for _, v := range strings.Fields(rest) {
					cur.Forget[v] = true
				}
			case "opaque":
				// opaque F...: calls of F inside this function are havocked (results unconstrained, everything F may
				// write is fresh); F's preconditions are not checked here and its postconditions are not assumed -
				// sound, and used where a callee's precondition is a sweep invariant this function cannot establish
				if cur.Opaque == nil {
					cur.Opaque = map[string]bool{}
				}
				for _, v := range strings.Fields(rest) {
					cur.Opaque[v] = true
				}
			case "maypanic":
				// the function may propagate a documented panic of a callee whose condition cannot be
				// expressed over this function's parameters (e.g. a value set by option callbacks)
				cur.MayPanic = true
			case "panicfree":
				// only panic-relevant safety obligations: integer arithmetic wraps as in Go, float->int
				// conversion is implementation-defined but never panics
				cur.Arith = "wrap"
				cur.PanicFree = true
			case "budget":
				fmt.Sscanf(rest, "%d", &cur.Budget)
			case "ghost":
				cur.Ghosts = append(cur.Ghosts, strings.TrimSpace(rest))
			case "replaces", "initfields":
				cur.Ghosts = append(cur.Ghosts, word+" "+strings.TrimSpace(rest))
			case "requires":
				cur.Requires = append(cur.Requires, c.newClause("requires", rest, it.line))
			case "assumes":
				// a precondition assumed inside the body but NOT checked at call sites: an explicit,
				// listed assumption (typically a data-structure invariant of the sweep that this
				// family cannot establish)
				cur.Assumes = append(cur.Assumes, c.newClause("assumes", rest, it.line))
			case "ensures":
				cur.Ensures = append(cur.Ensures, c.newClause("ensures", rest, it.line))
			case "expect":
				// checked like ensures, but never assumed by callers (used for clauses that
				// are known not to hold on the current tree: known findings)
				cl := c.newClause("expect", rest, it.line)
				cur.Ensures = append(cur.Ensures, cl)
			case "assert":
				// assert after VAR[#k] [label] EXPR
				w1, r1 := splitWord(rest)
				if w1 != "after" {
					return nil, fmt.Errorf("%s:%d: assert needs 'after VAR'", path, it.line)
				}
				v, r2 := splitWord(r1)
				occ := 0
				if i := strings.Index(v, "#"); i >= 0 {
					fmt.Sscanf(v[i+1:], "%d", &occ)
					v = v[:i]
				}
				cl := c.newClause("assert", r2, it.line)
				cur.Asserts = append(cur.Asserts, &AssertClause{Var: v, Occ: occ, Cl: cl})
			case "panics":
				cur.Panics = c.newClause("panics", rest, it.line)
			case "modifies":
				for _, t := range strings.Split(rest, ",") {
					if t = strings.TrimSpace(t); t != "" {
						cur.Modifies = append(cur.Modifies, t)
					}
				}
			case "loop":
				lp, r2 := splitWord(rest)
				kind, r3 := splitWord(r2)
				lc := cur.Loops[lp]
				if lc == nil {
					lc = &LoopContract{Path: lp}
					cur.Loops[lp] = lc
				}
				switch kind {
				case "invariant":
					cl := c.newClause("invariant", r3, it.line)
					cl.Loop = lp
					lc.Invariants = append(lc.Invariants, cl)
				case "step":
					// relation between the state at the start and at the end of one iteration
					cl := c.newClause("step", r3, it.line)
					cl.Loop = lp
					lc.Steps = append(lc.Steps, cl)
				case "entry":
					cl := c.newClause("entry", r3, it.line)
					cl.Loop = lp
					lc.Entries = append(lc.Entries, cl)
				case "decreases":
					cl := c.newClause("decreases", r3, it.line)
					cl.Loop = lp
					lc.Decreases = cl
				case "modifies":
					for _, t := range strings.Split(r3, ",") {
						if t = strings.TrimSpace(t); t != "" {
							lc.Modifies = append(lc.Modifies, t)
						}
					}
				default:
					return nil, fmt.Errorf("%s:%d: loop clause kind %q", path, it.line, kind)
				}
			}
		}
	}
	return c, nil
}

func splitWord(s string) (string, string) {
	s = strings.TrimSpace(s)
	i := strings.IndexAny(s, " \t")
	if i < 0 {
		return s, ""
	}
	return s[:i], strings.TrimSpace(s[i+1:])
}

// spec NAME(params) RET = EXPR      or      spec NAME(params) RET   (uninterpreted)
func parseSpec(s string, line int) (*SpecFunc, error) {
	i := strings.Index(s, "(")
	if i < 0 {
		return nil, fmt.Errorf("spec: missing (")
	}
	name := strings.TrimSpace(s[:i])
	depth := 0
	j := i
	for ; j < len(s); j++ {
		if s[j] == '(' {
			depth++
		} else if s[j] == ')' {
			depth--
			if depth == 0 {
				break
			}
		}
	}
	if j >= len(s) {
		return nil, fmt.Errorf("spec: unbalanced parens")
	}
	params := s[i+1 : j]
	rest := strings.TrimSpace(s[j+1:])
	sf := &SpecFunc{Name: name, Params: params, Line: line}
	// find top-level " = " (not ==)
	k := -1
	for x := 0; x+2 < len(rest); x++ {
		if rest[x] == ' ' && rest[x+1] == '=' && rest[x+2] == ' ' {
			k = x
			break
		}
	}
	if k < 0 {
		sf.Ret = rest
		sf.Opaque = true
		return sf, nil
	}
	sf.Ret = strings.TrimSpace(rest[:k])
	sf.Body = strings.TrimSpace(rest[k+3:])
	return sf, nil
}
