package main

import (
	"fmt"
	"go/ast"
	"go/token"
	"go/types"
	"sort"
	"strings"
)

// Val is a symbolic value: an SMT term plus its Go type.
type Val struct {
	T  string
	Ty types.Type
}

// State is one symbolic state: variable bindings, heap arrays, path condition.
type State struct {
	vars  map[types.Object]Val
	heap  map[string]string
	pc    []string
	dead  bool
	fresh []freshRef // references allocated on this path, with the heap as it was at allocation time
}

// freshRef: a newly allocated reference cannot occur in any pointer field of the heap that
// existed when it was allocated.
type freshRef struct {
	ref  string
	snap map[string]string
}

func (st *State) clone() *State {
	n := &State{vars: make(map[types.Object]Val, len(st.vars)), heap: make(map[string]string, len(st.heap)), dead: st.dead}
	for k, v := range st.vars {
		n.vars[k] = v
	}
	for k, v := range st.heap {
		n.heap[k] = v
	}
	n.pc = append([]string{}, st.pc...)
	n.fresh = append([]freshRef{}, st.fresh...)
	return n
}

func (st *State) assume(f string) {
	if f == "true" || f == "" {
		return
	}
	st.pc = append(st.pc, f)
}

// VC is one proof obligation.
type VC struct {
	Name       string
	Func       string
	Kind       string
	Label      string
	Props      []string
	Tier       string
	Hyps       []string
	Goal       string
	NDecls     int
	Tags       []string
	ClauseText string
	Pos        string
	fv         *FnV
	// results
	Status  string // unsat (discharged), sat, unknown, timeout
	Solver  string
	TimeS   float64
	Model   string
	Output  string
	MustFail bool // vacuity twin: expected NOT to be provable
	node     ast.Node
}

type jumpTarget struct {
	label     string
	isLoop    bool
	breaks    []*State
	continues []*State
}

type retState struct {
	st   *State
	vals []Val
	pos  token.Pos
}

type frame struct {
	fd      *ast.FuncDecl
	key     string
	rets    []*retState
	results []types.Object // result variables (named or synthesized)
	targets []*jumpTarget
	pendingLabel string
	loopPathStack []string
	loopCounter   []int
	valptrArgs map[types.Object]bool
}

// FnV verifies one function against its contract.
type FnV struct {
	prog   *Program
	smt    *SMT
	eff    *Effects
	key    string
	fc     *FuncContract
	fd     *ast.FuncDecl
	decls  []string
	vcs    []*VC
	nfresh int
	spec   bool
	oldSt  *State
	specEnv map[types.Object]Val
	frames []*frame
	tags   map[string]bool
	prefix string
	counters map[string]int
	outside []string
	inlineDepth int
	inlined map[string]bool
	calledContracts map[string]bool
	entry *State
	curPos token.Pos
	noOblige int // >0: suppress obligations (e.g. evaluating assumed ensures)
	tsubstStack []map[*types.TypeParam]types.Type
	wrap bool
	fround bool // float64 operations carry a relative rounding error (floats rounded)
	froundOps [][2]string // (exact term, rounded constant) of every rounded operation so far
	mulHints map[string]bool
	wrapUnsigned bool
	noF2I bool
	noName bool
	specStack []*specFrame
	floatDivs []string
	shl map[string]int
	assertAt map[ast.Stmt][]*AssertClause
	anchorCall *ast.CallExpr
	callArgs map[*ast.CallExpr][]Val // argument values of the calls executed in the top frame (for call-anchored asserts)
	i2fCache map[string]string
	i2fList [][2]string
	ncut int
	rnd map[string]string
	intOf map[string]string
	mathInts bool
	noPatterns bool
	dm map[string][2]string
	instName string
}

func (fv *FnV) cur() *frame { return fv.frames[len(fv.frames)-1] }

func (fv *FnV) tag(t string) { fv.tags[t] = true }

func (fv *FnV) unsupported(n ast.Node, what string) {
	pos := ""
	if n != nil {
		pos = fv.prog.Fset.Position(n.Pos()).String()
	}
	msg := fmt.Sprintf("%s: %s", pos, what)
	for _, o := range fv.outside {
		if o == msg {
			return
		}
	}
	fv.outside = append(fv.outside, msg)
}

func (fv *FnV) fresh(prefix, sort string) string {
	fv.nfresh++
	n := fmt.Sprintf("%s!%d", sanitize(prefix), fv.nfresh)
	fv.decls = append(fv.decls, fmt.Sprintf("(declare-const %s %s)", n, sort))
	return n
}

func (fv *FnV) freshVal(prefix string, t types.Type, st *State) Val {
	n := fv.fresh(prefix, fv.smt.sortOf(t))
	if st != nil {
		for _, f := range fv.smt.rangeFacts(n, t, 0) {
			st.assume(f)
		}
	}
	return Val{n, t}
}

// name binds a long term to a defined constant so later terms stay small.
func (fv *FnV) name(prefix, term, sort string) string {
	if len(term) <= 96 || fv.noName || fv.spec {
		return term
	}
	fv.nfresh++
	n := fmt.Sprintf("%s!%d", sanitize(prefix), fv.nfresh)
	fv.decls = append(fv.decls, fmt.Sprintf("(define-fun %s () %s %s)", n, sort, term))
	return n
}

func (fv *FnV) nameVal(prefix string, v Val) Val {
	return Val{fv.name(prefix, v.T, fv.smt.sortOf(v.Ty)), v.Ty}
}

func (fv *FnV) posStr(n ast.Node) string {
	if n == nil {
		return ""
	}
	p := fv.prog.Fset.Position(n.Pos())
	return fmt.Sprintf("%s:%d", shortFile(p.Filename), p.Line)
}

func shortFile(f string) string {
	if i := strings.LastIndex(f, "/"); i >= 0 {
		return f[i+1:]
	}
	return f
}

// oblige records a proof obligation under the current path condition.
func (fv *FnV) oblige(st *State, kind, what, goal string, n ast.Node, clause *Clause) {
	if fv.noOblige > 0 || fv.spec && clause == nil {
		return
	}
	if st.dead || goal == "true" {
		// still count trivial goals? no: they carry no information
		if st.dead {
			return
		}
	}
	if kind == "safe.index" || kind == "safe.nil" || kind == "safe.slice" || kind == "safe.div" {
		// execution only continues past the operation if it did not panic: whether or not the obligation is
		// generated (nosafety) or discharged, the code after it may rely on the condition
		defer st.assume(goal)
	}
	if fv.fc != nil && fv.fc.NoSafety && strings.HasPrefix(kind, "safe.") {
		return
	}
	what = strings.Join(strings.Fields(what), "")
	if len(what) > 60 {
		what = what[:60]
	}
	base := fv.instName + "#" + fv.prefix + kind
	if what != "" {
		base += "@" + what
	}
	k := fv.counters[base]
	fv.counters[base] = k + 1
	name := base
	if k > 0 || strings.HasPrefix(kind, "safe.") {
		name = fmt.Sprintf("%s[%d]", base, k)
	}
	vc := &VC{Name: name, Func: fv.key, Kind: kind, Hyps: append([]string{}, st.pc...), Goal: goal, NDecls: len(fv.decls), fv: fv, Pos: fv.posStr(n), node: n}
	if fv.fc != nil {
		vc.Props = fv.fc.Props
		vc.Tier = fv.fc.Tier
	}
	if clause != nil {
		vc.ClauseText = clause.Text
		vc.Label = clause.Label
		if len(clause.Props) > 0 {
			vc.Props = clause.Props
		}
	}
	fv.vcs = append(fv.vcs, vc)
}

// ---------------------------------------------------------------- merging

func commonPrefix(states []*State) int {
	if len(states) == 0 {
		return 0
	}
	n := len(states[0].pc)
	for _, s := range states[1:] {
		if len(s.pc) < n {
			n = len(s.pc)
		}
	}
	for i := 0; i < n; i++ {
		for _, s := range states[1:] {
			if s.pc[i] != states[0].pc[i] {
				return i
			}
		}
	}
	return n
}

// merge joins mutually exclusive states that share a pc prefix.
func (fv *FnV) merge(states []*State) *State {
	var live []*State
	for _, s := range states {
		if s != nil && !s.dead {
			live = append(live, s)
		}
	}
	if len(live) == 0 {
		return &State{vars: map[types.Object]Val{}, heap: map[string]string{}, dead: true}
	}
	if len(live) == 1 {
		return live[0]
	}
	cp := commonPrefix(live)
	conds := make([]string, len(live))
	for i, s := range live {
		conds[i] = fv.name("pc", and(s.pc[cp:]), "Bool")
	}
	out := &State{vars: map[types.Object]Val{}, heap: map[string]string{}}
	seenFresh := map[string]bool{}
	for _, s := range live {
		for _, fr := range s.fresh {
			if !seenFresh[fr.ref] {
				seenFresh[fr.ref] = true
				out.fresh = append(out.fresh, fr)
			}
		}
	}
	out.pc = append([]string{}, live[0].pc[:cp]...)
	out.pc = append(out.pc, or(conds))
	// variables present in all states
	for k, v0 := range live[0].vars {
		all := true
		same := true
		for _, s := range live[1:] {
			v, ok := s.vars[k]
			if !ok {
				all = false
				break
			}
			if v.T != v0.T {
				same = false
			}
		}
		if !all {
			continue
		}
		if same {
			out.vars[k] = v0
			continue
		}
		t := live[len(live)-1].vars[k].T
		for i := len(live) - 2; i >= 0; i-- {
			t = fmt.Sprintf("(ite %s %s %s)", conds[i], live[i].vars[k].T, t)
		}
		out.vars[k] = Val{fv.name(k.Name(), t, fv.smt.sortOf(v0.Ty)), v0.Ty}
	}
	keys := map[string]bool{}
	for _, s := range live {
		for k := range s.heap {
			keys[k] = true
		}
	}
	for k := range keys {
		same := true
		h0 := fv.heapGet(live[0], k)
		for _, s := range live[1:] {
			if fv.heapGet(s, k) != h0 {
				same = false
			}
		}
		if same {
			out.heap[k] = h0
			continue
		}
		t := fv.heapGet(live[len(live)-1], k)
		for i := len(live) - 2; i >= 0; i-- {
			t = fmt.Sprintf("(ite %s %s %s)", conds[i], fv.heapGet(live[i], k), t)
		}
		out.heap[k] = fv.name("H_"+k, t, fv.heapSort(k))
	}
	return out
}

// ---------------------------------------------------------------- heap

// heap keys: "T.f" for field f of heap struct T.  The sort of the array is
// (Array Int sortOf(f)).
func (fv *FnV) heapSort(key string) string {
	return fv.eff.heapSorts[key]
}

func (fv *FnV) heapGet(st *State, key string) string {
	if h, ok := st.heap[key]; ok {
		return h
	}
	// initial heap array: a global uninterpreted constant
	name := "H0_" + sanitize(key)
	fv.smt.declareFun(name, fmt.Sprintf("(declare-const %s %s)", name, fv.heapSort(key)))
	st.heap[key] = name
	return name
}

func (fv *FnV) heapKey(structT types.Type, field string) string {
	n := types.Unalias(fv.smt.resolve(structT)).(*types.Named)
	key := n.Origin().Obj().Name() + "." + field
	if _, ok := fv.eff.heapSorts[key]; !ok {
		st := n.Underlying().(*types.Struct)
		for i := 0; i < st.NumFields(); i++ {
			if st.Field(i).Name() == field {
				fv.eff.heapSorts[key] = "(Array Int " + fv.smt.sortOf(st.Field(i).Type()) + ")"
			}
		}
	}
	return key
}

// ---------------------------------------------------------------- statements

func (fv *FnV) execBlock(st *State, list []ast.Stmt) *State {
	for _, s := range list {
		if st.dead {
			return st
		}
		st = fv.exec(st, s)
	}
	return st
}

func (fv *FnV) exec(st *State, s ast.Stmt) *State {
	var pre *State
	if acs, ok := fv.assertAt[s]; ok && len(fv.frames) == 1 {
		for _, ac := range acs {
			if strings.HasPrefix(ac.Var, "call:") {
				// a local Hoare triple around a call: old(e) in the clause is the value just before the statement
				pre = st.clone()
			}
		}
	}
	_, isBranch := s.(*ast.BranchStmt)
	if _, isRet := s.(*ast.ReturnStmt); isRet || isBranch {
		// asserts anchored on a return statement are checked in the state just before it
		if acs, ok := fv.assertAt[s]; ok && !st.dead && len(fv.frames) == 1 {
			for _, ac := range acs {
				g := fv.evalClauseAt(st, ac.Cl, s.Pos())
				lab := ac.Cl.Label
				if lab == "" {
					lab = ac.Var
				}
				fv.oblige(st, "assert["+lab+"]", "", g, s, ac.Cl)
				st.assume(fv.name("as", g, "Bool"))
			}
		}
		return fv.exec1(st, s)
	}
	st = fv.exec1(st, s)
	if acs, ok := fv.assertAt[s]; ok && !st.dead && len(fv.frames) == 1 {
		for _, ac := range acs {
			var g string
			if strings.HasPrefix(ac.Var, "call:") && pre != nil {
				fv.anchorCall = callOfStmtNamed(s, ac.Var)
				g = fv.evalClauseAtPre(st, ac.Cl, s.End(), pre)
				fv.anchorCall = nil
			} else {
				g = fv.evalClauseAt(st, ac.Cl, s.End())
			}
			lab := ac.Cl.Label
			if lab == "" {
				lab = ac.Var
			}
			fv.oblige(st, "assert["+lab+"]", "", g, s, ac.Cl)
			st.assume(fv.name("as", g, "Bool"))
		}
	}
	return st
}

func (fv *FnV) exec1(st *State, s ast.Stmt) *State {
	if st.dead {
		return st
	}
	fv.curPos = s.Pos()
	switch x := s.(type) {
	case *ast.BlockStmt:
		return fv.execBlock(st, x.List)
	case *ast.EmptyStmt:
		return st
	case *ast.ExprStmt:
		if call, ok := x.X.(*ast.CallExpr); ok {
			fv.evalCall(st, call)
			return st
		}
		fv.eval(st, x.X)
		return st
	case *ast.DeclStmt:
		gd, ok := x.Decl.(*ast.GenDecl)
		if !ok || gd.Tok != token.VAR {
			return st
		}
		for _, sp := range gd.Specs {
			vs := sp.(*ast.ValueSpec)
			if len(vs.Values) == 0 {
				for _, n := range vs.Names {
					obj := fv.prog.Info.Defs[n]
					if obj == nil {
						continue
					}
					st.vars[obj] = Val{fv.smt.zeroOf(obj.Type()), obj.Type()}
				}
				continue
			}
			vals := fv.evalMulti(st, vs.Values, len(vs.Names))
			if st.dead {
				return st
			}
			for i, n := range vs.Names {
				obj := fv.prog.Info.Defs[n]
				if obj == nil || n.Name == "_" {
					continue
				}
				st.vars[obj] = fv.nameVal(n.Name, fv.convertTo(vals[i], obj.Type()))
			}
		}
		return st
	case *ast.AssignStmt:
		return fv.execAssign(st, x)
	case *ast.IncDecStmt:
		one := &ast.BasicLit{Kind: token.INT, Value: "1"}
		op := token.ADD
		if x.Tok == token.DEC {
			op = token.SUB
		}
		cur := fv.eval(st, x.X)
		ty := cur.Ty
		_ = one
		res := fv.arith(st, op, cur, Val{"1", ty}, ty, x)
		fv.assign(st, x.X, res)
		return st
	case *ast.IfStmt:
		if x.Init != nil {
			st = fv.exec(st, x.Init)
			if st.dead {
				return st
			}
		}
		c := fv.evalCond(st, x.Cond)
		if st.dead {
			return st
		}
		c = fv.name("c", c, "Bool")
		a := st.clone()
		a.assume(c)
		b := st
		b.assume(not(c))
		a = fv.exec(a, x.Body)
		if x.Else != nil {
			b = fv.exec(b, x.Else)
		}
		return fv.merge([]*State{a, b})
	case *ast.ReturnStmt:
		fr := fv.cur()
		var vals []Val
		if len(x.Results) == 0 {
			for _, r := range fr.results {
				vals = append(vals, st.vars[r])
			}
		} else {
			vals = fv.evalMulti(st, x.Results, len(fr.results))
			if st.dead {
				return st
			}
			for i := range vals {
				vals[i] = fv.convertTo(vals[i], fr.results[i].Type())
			}
		}
		fr.rets = append(fr.rets, &retState{st: st.clone(), vals: vals, pos: x.Pos()})
		st.dead = true
		return st
	case *ast.LabeledStmt:
		fv.cur().pendingLabel = x.Label.Name
		return fv.exec(st, x.Stmt)
	case *ast.BranchStmt:
		fr := fv.cur()
		label := ""
		if x.Label != nil {
			label = x.Label.Name
		}
		switch x.Tok {
		case token.BREAK:
			for i := len(fr.targets) - 1; i >= 0; i-- {
				t := fr.targets[i]
				if label == "" || t.label == label {
					t.breaks = append(t.breaks, st.clone())
					st.dead = true
					return st
				}
			}
		case token.CONTINUE:
			for i := len(fr.targets) - 1; i >= 0; i-- {
				t := fr.targets[i]
				if t.isLoop && (label == "" || t.label == label) {
					t.continues = append(t.continues, st.clone())
					st.dead = true
					return st
				}
			}
		}
		fv.unsupported(x, "branch statement "+x.Tok.String())
		st.dead = true
		return st
	case *ast.SwitchStmt:
		return fv.execSwitch(st, x)
	case *ast.ForStmt:
		return fv.execFor(st, x)
	case *ast.RangeStmt:
		return fv.execRange(st, x)
	default:
		fv.unsupported(s, fmt.Sprintf("statement %T", s))
		st.dead = true
		return st
	}
}

func (fv *FnV) execAssign(st *State, x *ast.AssignStmt) *State {
	if x.Tok != token.ASSIGN && x.Tok != token.DEFINE {
		// op-assign
		var op token.Token
		switch x.Tok {
		case token.ADD_ASSIGN:
			op = token.ADD
		case token.SUB_ASSIGN:
			op = token.SUB
		case token.MUL_ASSIGN:
			op = token.MUL
		case token.QUO_ASSIGN:
			op = token.QUO
		case token.REM_ASSIGN:
			op = token.REM
		case token.OR_ASSIGN:
			op = token.OR
		case token.AND_ASSIGN:
			op = token.AND
		case token.SHL_ASSIGN:
			op = token.SHL
		case token.SHR_ASSIGN:
			op = token.SHR
		case token.XOR_ASSIGN:
			op = token.XOR
		case token.AND_NOT_ASSIGN:
			op = token.AND_NOT
		default:
			fv.unsupported(x, "assignment operator "+x.Tok.String())
			st.dead = true
			return st
		}
		l := fv.eval(st, x.Lhs[0])
		r := fv.eval(st, x.Rhs[0])
		if st.dead {
			return st
		}
		res := fv.binop(st, op, l, r, l.Ty, x, exprString(fv.prog.Fset, x))
		fv.assign(st, x.Lhs[0], res)
		return st
	}
	vals := fv.evalMulti(st, x.Rhs, len(x.Lhs))
	if st.dead {
		return st
	}
	for i, l := range x.Lhs {
		if id, ok := l.(*ast.Ident); ok {
			if id.Name == "_" {
				continue
			}
			if x.Tok == token.DEFINE {
				if obj := fv.prog.Info.Defs[id]; obj != nil {
					st.vars[obj] = fv.nameVal(id.Name, fv.convertTo(vals[i], obj.Type()))
					continue
				}
			}
		}
		fv.assign(st, l, vals[i])
	}
	return st
}

// evalMulti evaluates a list of expressions expected to yield n values (a single
// multi-valued call is allowed).
func (fv *FnV) evalMulti(st *State, es []ast.Expr, n int) []Val {
	if len(es) == 1 && n > 1 {
		e := ast.Unparen(es[0])
		if call, ok := e.(*ast.CallExpr); ok {
			vs := fv.evalCall(st, call)
			for len(vs) < n {
				vs = append(vs, Val{"0", types.Typ[types.Int]})
			}
			return vs
		}
		fv.unsupported(es[0], "multi-value expression")
		st.dead = true
		return make([]Val, n)
	}
	var out []Val
	for _, e := range es {
		out = append(out, fv.eval(st, e))
	}
	for len(out) < n {
		out = append(out, Val{"0", types.Typ[types.Int]})
	}
	return out
}

func (fv *FnV) execSwitch(st *State, x *ast.SwitchStmt) *State {
	if x.Init != nil {
		st = fv.exec(st, x.Init)
	}
	var tag *Val
	if x.Tag != nil {
		v := fv.eval(st, x.Tag)
		v = fv.nameVal("tag", v)
		tag = &v
	}
	fr := fv.cur()
	tgt := &jumpTarget{label: fr.pendingLabel}
	fr.pendingLabel = ""
	fr.targets = append(fr.targets, tgt)
	var ends []*State
	rest := st
	var deflt *ast.CaseClause
	for _, c := range x.Body.List {
		cc := c.(*ast.CaseClause)
		if cc.List == nil {
			deflt = cc
			continue
		}
		var alts []string
		for _, e := range cc.List {
			if tag != nil {
				v := fv.eval(rest, e)
				alts = append(alts, fv.eqTerm(*tag, v))
			} else {
				alts = append(alts, fv.evalCond(rest, e))
			}
		}
		c := fv.name("sw", or(alts), "Bool")
		a := rest.clone()
		a.assume(c)
		rest.assume(not(c))
		for _, s := range cc.Body {
			if _, ok := s.(*ast.BranchStmt); ok && s.(*ast.BranchStmt).Tok == token.FALLTHROUGH {
				fv.unsupported(s, "fallthrough")
			}
		}
		a = fv.execBlock(a, cc.Body)
		ends = append(ends, a)
	}
	if deflt != nil {
		rest = fv.execBlock(rest, deflt.Body)
	}
	ends = append(ends, rest)
	ends = append(ends, tgt.breaks...)
	fr.targets = fr.targets[:len(fr.targets)-1]
	return fv.merge(ends)
}

// ---------------------------------------------------------------- loops

func (fv *FnV) nextLoopPath() string {
	fr := fv.cur()
	if len(fr.loopCounter) == 0 {
		fr.loopCounter = []int{0}
	}
	d := len(fr.loopPathStack)
	for len(fr.loopCounter) <= d {
		fr.loopCounter = append(fr.loopCounter, 0)
	}
	idx := fr.loopCounter[d]
	fr.loopCounter[d]++
	p := fmt.Sprintf("%d", idx)
	if d > 0 {
		p = fr.loopPathStack[d-1] + "." + p
	}
	return p
}

func (fv *FnV) pushLoop(p string) {
	fr := fv.cur()
	fr.loopPathStack = append(fr.loopPathStack, p)
	d := len(fr.loopPathStack)
	for len(fr.loopCounter) <= d {
		fr.loopCounter = append(fr.loopCounter, 0)
	}
	fr.loopCounter[d] = 0
}

func (fv *FnV) popLoop() {
	fr := fv.cur()
	fr.loopPathStack = fr.loopPathStack[:len(fr.loopPathStack)-1]
}

func (fv *FnV) loopContract(path string) *LoopContract {
	if fv.fc == nil || len(fv.frames) != 1 {
		// loops inside inlined callees use the callee's own contract (if any)
		fr := fv.cur()
		if c := fv.prog.C.ByKey[fr.key]; c != nil {
			return c.Loops[path]
		}
		return nil
	}
	return fv.fc.Loops[path]
}

type loopInfo struct {
	path    string
	stmt    ast.Stmt
	idxObj  types.Object // hidden range index
	lc      *LoopContract
	body    *ast.BlockStmt
}

// havocLoop replaces everything the loop may modify by fresh symbols.
func (fv *FnV) havocLoop(st *State, li *loopInfo, nodes []ast.Node) {
	mod := fv.eff.loopMods(fv, nodes)
	var objs []types.Object
	for o := range mod.vars {
		objs = append(objs, o)
	}
	sort.Slice(objs, func(i, j int) bool { return objs[i].Pos() < objs[j].Pos() })
	for _, o := range objs {
		if v, ok := st.vars[o]; ok {
			st.vars[o] = fv.freshVal(o.Name(), v.Ty, st)
		}
	}
	if li.idxObj != nil {
		st.vars[li.idxObj] = fv.freshVal("_i", types.Typ[types.Int], st)
	}
	var keys []string
	for k := range mod.heap {
		keys = append(keys, k)
	}
	sort.Strings(keys)
	grow := func(k, old string) {
		// objects are never de-allocated: the allocation set only grows across iterations
		if k == "$alloc" {
			fv.decls = append(fv.decls, fmt.Sprintf("(assert (forall ((r!q Int)) (! (=> (select %s r!q) (select %s r!q)) :pattern ((select %s r!q)))))", old, st.heap[k], st.heap[k]))
		}
	}
	for _, k := range keys {
		old := fv.heapGet(st, k)
		st.heap[k] = fv.fresh("H_"+k, fv.heapSort(k))
		grow(k, old)
	}
	if mod.allHeap {
		for _, k := range sortedKeys(fv.eff.heapSorts) {
			old := fv.heapGet(st, k)
			st.heap[k] = fv.fresh("H_"+k, fv.heapSort(k))
			grow(k, old)
		}
	}
}

func (fv *FnV) checkInvariants(st *State, li *loopInfo, phase string, n ast.Node) {
	if li.lc == nil {
		return
	}
	for i, cl := range li.lc.Invariants {
		g := fv.evalClause(st, cl, li, nil)
		lab := cl.Label
		if lab == "" {
			lab = fmt.Sprintf("%d", i)
		}
		fv.oblige(st, fmt.Sprintf("loop%s.inv[%s].%s", li.path, lab, phase), "", g, n, cl)
	}
}

func (fv *FnV) assumeInvariants(st *State, li *loopInfo) {
	if li.lc == nil {
		return
	}
	for _, cl := range li.lc.Invariants {
		g := fv.evalClause(st, cl, li, nil)
		st.assume(fv.name("inv", g, "Bool"))
	}
}

func (fv *FnV) execFor(st *State, x *ast.ForStmt) *State {
	fr := fv.cur()
	label := fr.pendingLabel
	fr.pendingLabel = ""
	path := fv.nextLoopPath()
	if x.Init != nil {
		st = fv.exec(st, x.Init)
		if st.dead {
			return st
		}
	}
	li := &loopInfo{path: path, stmt: x, lc: fv.loopContract(path), body: x.Body}
	nodes := []ast.Node{x.Body}
	if x.Cond != nil {
		nodes = append(nodes, x.Cond)
	}
	if x.Post != nil {
		nodes = append(nodes, x.Post)
	}
	return fv.runLoop(st, li, label, nodes, func(s *State) string {
		if x.Cond == nil {
			return "true"
		}
		return fv.evalCond(s, x.Cond)
	}, nil, x.Post, x)
}

func (fv *FnV) execRange(st *State, x *ast.RangeStmt) *State {
	fr := fv.cur()
	label := fr.pendingLabel
	fr.pendingLabel = ""
	path := fv.nextLoopPath()
	rv := fv.eval(st, x.X)
	if st.dead {
		return st
	}
	rv = fv.nameVal("rng", rv)
	idx := types.NewVar(x.Pos(), fv.prog.Pkg, "_i", types.Typ[types.Int])
	st.vars[idx] = Val{"0", types.Typ[types.Int]}
	li := &loopInfo{path: path, stmt: x, idxObj: idx, lc: fv.loopContract(path), body: x.Body}
	var lenT string
	rt := fv.smt.resolve(rv.Ty)
	isInt := isIntType(rt)
	switch u := rt.Underlying().(type) {
	case *types.Slice:
		lenT = fmt.Sprintf("(len_%s %s)", fv.smt.sortOf(rt), rv.T)
	case *types.Array:
		lenT = fmt.Sprintf("%d", u.Len())
	case *types.Basic:
		if isInt {
			lenT = rv.T
		}
	}
	if lenT == "" {
		fv.unsupported(x, "range over "+rt.String())
		st.dead = true
		return st
	}
	pre := func(s *State) {
		i := s.vars[idx]
		if x.Key != nil {
			if id, ok := x.Key.(*ast.Ident); ok && id.Name != "_" {
				kt := types.Type(types.Typ[types.Int])
				if obj := fv.prog.Info.Defs[id]; obj != nil {
					kt = obj.Type()
					s.vars[obj] = Val{i.T, kt}
				} else {
					fv.assign(s, x.Key, Val{i.T, kt})
				}
			}
		}
		if x.Value != nil {
			if id, ok := x.Value.(*ast.Ident); ok && id.Name != "_" {
				var ev Val
				switch u := rt.Underlying().(type) {
				case *types.Slice:
					ev = Val{fmt.Sprintf("(select (arr_%s %s) %s)", fv.smt.sortOf(rt), rv.T, i.T), u.Elem()}
				case *types.Array:
					ev = Val{fmt.Sprintf("(select %s %s)", rv.T, i.T), u.Elem()}
				}
				fv.assumeRange(s, ev)
				if obj := fv.prog.Info.Defs[id]; obj != nil {
					s.vars[obj] = ev
				} else {
					fv.assign(s, x.Value, ev)
				}
			}
		}
	}
	nodes := []ast.Node{x.Body}
	if x.Key != nil {
		nodes = append(nodes, x.Key)
	}
	if x.Value != nil {
		nodes = append(nodes, x.Value)
	}
	return fv.runLoop(st, li, label, nodes, func(s *State) string {
		return fmt.Sprintf("(< %s %s)", s.vars[idx].T, lenT)
	}, pre, nil, x, func(i string) string { return fmt.Sprintf("(and (<= 0 %s) (<= %s %s))", i, i, lenT) })
}

// runLoop: invariant-based treatment of one loop.
func (fv *FnV) runLoop(st *State, li *loopInfo, label string, nodes []ast.Node, cond func(*State) string,
	pre func(*State), post ast.Stmt, n ast.Node, idxInv ...func(string) string) *State {
	fr := fv.cur()
	// 1. invariants hold on entry
	fv.checkInvariants(st, li, "init", n)
	if li.lc != nil {
		for i, cl := range li.lc.Entries {
			g := fv.evalClause(st, cl, li, nil)
			lab := cl.Label
			if lab == "" {
				lab = fmt.Sprintf("%d", i)
			}
			fv.oblige(st, fmt.Sprintf("loop%s.entry[%s]", li.path, lab), "", g, n, cl)
		}
	}
	// 2. havoc
	fv.havocLoop(st, li, nodes)
	if li.idxObj != nil && len(idxInv) > 0 {
		i := st.vars[li.idxObj].T
		st.assume(idxInv[0](i))
	}
	// 3. assume invariants
	fv.assumeInvariants(st, li)
	// 4. condition
	c := fv.name("lc", cond(st), "Bool")
	exit := st.clone()
	exit.assume(not(c))
	if c == "true" {
		exit.dead = true
	}
	body := st
	body.assume(c)
	tgt := &jumpTarget{label: label, isLoop: true}
	fr.targets = append(fr.targets, tgt)
	fv.pushLoop(li.path)
	var d0 string
	if li.lc != nil && li.lc.Decreases != nil {
		d0 = fv.name("dec0", fv.evalClause(body, li.lc.Decreases, li, nil), "Int")
	}
	if pre != nil {
		pre(body)
	}
	var iterStart *State
	if li.lc != nil && len(li.lc.Steps) > 0 {
		iterStart = body.clone()
	}
	end := fv.exec(body, li.body)
	fv.popLoop()
	fr.targets = fr.targets[:len(fr.targets)-1]
	cont := fv.merge(append([]*State{end}, tgt.continues...))
	if !cont.dead {
		if post != nil {
			cont = fv.exec(cont, post)
		}
		if li.idxObj != nil {
			i := cont.vars[li.idxObj]
			cont.vars[li.idxObj] = Val{fmt.Sprintf("(+ %s 1)", i.T), i.Ty}
		}
		if !cont.dead {
			if iterStart != nil {
				for i, cl := range li.lc.Steps {
					g := fv.evalClauseStep(cont, cl, li, iterStart)
					lab := cl.Label
					if lab == "" {
						lab = fmt.Sprintf("%d", i)
					}
					fv.oblige(cont, fmt.Sprintf("loop%s.step[%s]", li.path, lab), "", g, n, cl)
				}
			}
			fv.checkInvariants(cont, li, "preserve", n)
			if d0 != "" {
				d1 := fv.evalClause(cont, li.lc.Decreases, li, nil)
				fv.oblige(cont, fmt.Sprintf("loop%s.decreases", li.path), "", fmt.Sprintf("(and (>= %s 0) (< %s %s))", d0, d1, d0), n, li.lc.Decreases)
			}
		}
	}
	return fv.merge(append([]*State{exit}, tgt.breaks...))
}
