package main

import (
	"fmt"
	"go/ast"
	"go/constant"
	"go/token"
	"go/types"
	"math/big"
	"strings"
)

type specFrame struct {
	cur   map[types.Object]Val
	old   map[types.Object]Val
	oldSt *State
	inOld int
}

func (fv *FnV) typeOf(e ast.Expr) types.Type {
	if tv, ok := fv.prog.Info.Types[e]; ok && tv.Type != nil {
		return fv.smt.resolve(tv.Type)
	}
	if id, ok := e.(*ast.Ident); ok {
		if o := fv.prog.Info.Uses[id]; o != nil {
			return fv.smt.resolve(o.Type())
		}
		if o := fv.prog.Info.Defs[id]; o != nil {
			return fv.smt.resolve(o.Type())
		}
	}
	return types.Typ[types.Int]
}

func (fv *FnV) sliceParts(v Val) (sortName, lenT, arrT, nilT string) {
	sn := fv.smt.sortOf(v.Ty)
	return sn, fmt.Sprintf("(len_%s %s)", sn, v.T), fmt.Sprintf("(arr_%s %s)", sn, v.T), fmt.Sprintf("(nil_%s %s)", sn, v.T)
}

func (fv *FnV) mkSlice(t types.Type, lenT, arrT, nilT string) Val {
	sn := fv.smt.sortOf(t)
	return Val{fmt.Sprintf("(mk_%s %s %s %s)", sn, lenT, arrT, nilT), t}
}

func elemType(t types.Type) types.Type {
	switch u := t.Underlying().(type) {
	case *types.Slice:
		return u.Elem()
	case *types.Array:
		return u.Elem()
	case *types.Pointer:
		return u.Elem()
	}
	return nil
}

// ------------------------------------------------------------------ eval

func (fv *FnV) evalCond(st *State, e ast.Expr) string {
	return fv.eval(st, e).T
}

func (fv *FnV) eval(st *State, e ast.Expr) Val {
	if tv, ok := fv.prog.Info.Types[e]; ok && tv.Value != nil && tv.Value.Kind() != constant.String {
		if lit, ok := fv.smt.constLit(tv.Value, tv.Type); ok {
			return Val{lit, fv.smt.resolve(tv.Type)}
		}
	}
	switch x := e.(type) {
	case *ast.ParenExpr:
		return fv.eval(st, x.X)
	case *ast.Ident:
		return fv.evalIdent(st, x)
	case *ast.BasicLit:
		if x.Kind == token.STRING {
			return Val{fv.fresh("str", "Int"), fv.typeOf(e)}
		}
		fv.unsupported(x, "literal "+x.Value)
		return Val{"0", fv.typeOf(e)}
	case *ast.SelectorExpr:
		return fv.evalSelector(st, x)
	case *ast.IndexExpr:
		// generic instantiation f[T] handled in call
		c := fv.eval(st, x.X)
		i := fv.eval(st, x.Index)
		return fv.indexVal(st, c, i, x)
	case *ast.SliceExpr:
		return fv.evalSliceExpr(st, x)
	case *ast.StarExpr:
		p := fv.eval(st, x.X)
		return fv.deref(st, p, x)
	case *ast.UnaryExpr:
		return fv.evalUnary(st, x)
	case *ast.BinaryExpr:
		return fv.evalBinary(st, x)
	case *ast.CallExpr:
		vs := fv.evalCall(st, x)
		if len(vs) == 0 {
			return Val{"0", types.Typ[types.Int]}
		}
		return vs[0]
	case *ast.CompositeLit:
		return fv.evalComposite(st, x, fv.typeOf(x))
	case *ast.FuncLit:
		return Val{fv.fresh("funclit", "Int"), fv.typeOf(x)}
	}
	fv.unsupported(e, fmt.Sprintf("expression %T", e))
	return Val{fv.fresh("unk", fv.smt.sortOf(fv.typeOf(e))), fv.typeOf(e)}
}

func (fv *FnV) specTop() *specFrame {
	if len(fv.specStack) == 0 {
		return nil
	}
	return fv.specStack[len(fv.specStack)-1]
}

func (fv *FnV) evalIdent(st *State, id *ast.Ident) Val {
	obj := fv.prog.Info.Uses[id]
	if obj == nil {
		obj = fv.prog.Info.Defs[id]
	}
	switch o := obj.(type) {
	case *types.Nil:
		return Val{"0", types.Typ[types.UntypedNil]}
	case *types.Const:
		if lit, ok := fv.smt.constLit(o.Val(), o.Type()); ok {
			return Val{lit, fv.smt.resolve(o.Type())}
		}
	case *types.Var:
		if sf := fv.specTop(); sf != nil {
			if sf.inOld > 0 {
				if v, ok := sf.old[o]; ok {
					return v
				}
			}
			if v, ok := sf.cur[o]; ok {
				return v
			}
		}
		if v, ok := st.vars[o]; ok {
			return v
		}
		if o.Parent() == fv.prog.Pkg.Scope() || (o.Pkg() != nil && o.Parent() == o.Pkg().Scope()) {
			// package-level variable: an uninterpreted constant (read-only by the frame check)
			name := "G_" + o.Name()
			fv.smt.declareFun(name, fmt.Sprintf("(declare-const %s %s)", name, fv.smt.sortOf(o.Type())))
			if o.Name() == "posInf" {
				fv.smt.declareFun("ax_posInf", "(assert (> G_posInf 1000000000000000000000000000000000000000000000000000000000000000000000000000000000000000000000000000000000000000000000000000000000000000000000000000000000000000000000000000000000000000000000000000000000000000000000000000000000000000000000000000000000000000000000000000000000000000000000000000000000000.0))")
			}
			if o.Name() == "negInf" {
				fv.smt.declareFun("ax_negInf", "(assert (< G_negInf (- 1000000000000000000000000000000000000000000000000000000000000000000000000000000000000000000000000000000000000000000000000000000000000000000000000000000000000000000000000000000000000000000000000000000000000000000000000000000000000000000000000000000000000000000000000000000000000000000000000000000000000.0)))")
			}
			return Val{name, fv.smt.resolve(o.Type())}
		}
		// variable declared but not yet bound (e.g. named result): zero value
		v := Val{fv.smt.zeroOf(o.Type()), fv.smt.resolve(o.Type())}
		st.vars[o] = v
		return v
	}
	if fo, ok := obj.(*types.Func); ok {
		// a function used as a value: a distinct constant per function
		name := "Fn_" + sanitize(fo.Name())
		fv.smt.declareFun(name, fmt.Sprintf("(declare-const %s Int)", name))
		return Val{name, fv.smt.resolve(fo.Type())}
	}
	fv.unsupported(id, "identifier "+id.Name)
	return Val{fv.fresh("unk", fv.smt.sortOf(fv.typeOf(id))), fv.typeOf(id)}
}

// deref of a pointer value
func (fv *FnV) deref(st *State, p Val, n ast.Node) Val {
	pt, ok := fv.smt.resolve(p.Ty).Underlying().(*types.Pointer)
	if !ok {
		fv.unsupported(n, "deref of non-pointer")
		return p
	}
	if !fv.smt.isHeapPtr(pt) {
		fv.tag("value-pointers")
		return Val{p.T, pt.Elem()}
	}
	// load whole struct from heap
	fv.nilCheck(st, p, n)
	stt := pt.Elem().Underlying().(*types.Struct)
	sn := fv.smt.sortOf(pt.Elem())
	var fs []string
	for i := 0; i < stt.NumFields(); i++ {
		key := fv.heapKey(pt.Elem(), stt.Field(i).Name())
		fs = append(fs, fmt.Sprintf("(select %s %s)", fv.heapGet(st, key), p.T))
	}
	if len(fs) == 0 {
		fs = []string{"0"}
	}
	return Val{"(mk_" + sn + " " + strings.Join(fs, " ") + ")", pt.Elem()}
}

func (fv *FnV) nilCheck(st *State, p Val, n ast.Node) {
	if fv.spec {
		return
	}
	fv.oblige(st, "safe.nil", exprString(fv.prog.Fset, n), fmt.Sprintf("(not (= %s 0))", p.T), n, nil)
}

// field access on value v (struct, pointer-to-struct)
func (fv *FnV) fieldOf(st *State, v Val, idx int, n ast.Node) Val {
	t := fv.smt.resolve(v.Ty)
	if pt, ok := t.Underlying().(*types.Pointer); ok {
		stt, ok := fv.smt.resolve(pt.Elem()).Underlying().(*types.Struct)
		if !ok {
			fv.unsupported(n, "field of pointer to non-struct")
			return v
		}
		f := stt.Field(idx)
		if fv.smt.isHeapPtr(pt) {
			fv.nilCheck(st, v, n)
			key := fv.heapKey(pt.Elem(), f.Name())
			r := Val{fmt.Sprintf("(select %s %s)", fv.heapGet(st, key), v.T), fv.smt.resolve(f.Type())}
			if fv.smt.isHeapPtr(r.Ty) && !fv.spec && len(v.T) < 200 {
				// a reference allocated on this path is not stored in the heap that pre-dates it
				for _, fr := range st.fresh {
					arr, ok := fr.snap[key]
					if !ok {
						arr = "H0_" + sanitize(key)
						fv.smt.declareFun(arr, fmt.Sprintf("(declare-const %s %s)", arr, fv.heapSort(key)))
					}
					st.assume(fmt.Sprintf("(not (= (select %s %s) %s))", arr, v.T, fr.ref))
				}
			}
			fv.closedHeapFact(st, r)
			fv.assumeRange(st, r)
			return r
		}
		sn := fv.smt.sortOf(pt.Elem())
		return Val{fmt.Sprintf("(%s_%s %s)", sn, f.Name(), v.T), fv.smt.resolve(f.Type())}
	}
	stt, ok := t.Underlying().(*types.Struct)
	if !ok {
		fv.unsupported(n, "field of non-struct "+t.String())
		return v
	}
	f := stt.Field(idx)
	sn := fv.smt.sortOf(t)
	return Val{fmt.Sprintf("(%s_%s %s)", sn, f.Name(), v.T), fv.smt.resolve(f.Type())}
}

// assumeRange adds the well-typedness facts of a value read from memory (integer ranges)
func (fv *FnV) assumeRange(st *State, r Val) {
	if fv.spec || len(r.T) > 300 {
		return
	}
	for _, f := range fv.smt.rangeFacts(r.T, r.Ty, 0) {
		dup := false
		for _, p := range st.pc {
			if p == f {
				dup = true
				break
			}
		}
		if !dup {
			st.assume(f)
		}
	}
}

func (fv *FnV) closedHeapFact(st *State, r Val) {
	// pointers read from the heap are nil or allocated (no dangling references)
	if fv.smt.isHeapPtr(r.Ty) && !fv.spec && len(r.T) < 200 {
		f := fmt.Sprintf("(or (= %s 0) (select %s %s))", r.T, fv.heapGet(st, "$alloc"), r.T)
		for _, p := range st.pc {
			if p == f {
				return
			}
		}
		st.assume(f)
	}
}

func (fv *FnV) evalSelector(st *State, x *ast.SelectorExpr) Val {
	sel := fv.prog.Info.Selections[x]
	if sel == nil {
		// qualified identifier pkg.Name
		obj := fv.prog.Info.Uses[x.Sel]
		switch o := obj.(type) {
		case *types.Const:
			if lit, ok := fv.smt.constLit(o.Val(), o.Type()); ok {
				return Val{lit, fv.smt.resolve(o.Type())}
			}
		case *types.Var:
			name := "G_" + o.Pkg().Name() + "_" + o.Name()
			fv.smt.declareFun(name, fmt.Sprintf("(declare-const %s %s)", name, fv.smt.sortOf(o.Type())))
			return Val{name, o.Type()}
		}
		fv.unsupported(x, "qualified identifier "+exprString(fv.prog.Fset, x))
		return Val{fv.fresh("unk", fv.smt.sortOf(fv.typeOf(x))), fv.typeOf(x)}
	}
	if sel.Kind() != types.FieldVal {
		fv.unsupported(x, "method value")
		return Val{fv.fresh("unk", "Int"), fv.typeOf(x)}
	}
	v := fv.eval(st, x.X)
	for _, i := range sel.Index() {
		v = fv.fieldOf(st, v, i, x)
	}
	return v
}

func (fv *FnV) indexVal(st *State, c, i Val, n ast.Node) Val {
	ct := fv.smt.resolve(c.Ty)
	switch u := ct.Underlying().(type) {
	case *types.Slice:
		_, lenT, arrT, _ := fv.sliceParts(c)
		if !fv.spec {
			fv.oblige(st, "safe.index", exprString(fv.prog.Fset, n), fmt.Sprintf("(and (<= 0 %s) (< %s %s))", i.T, i.T, lenT), n, nil)
		}
		r := Val{fmt.Sprintf("(select %s %s)", arrT, i.T), fv.smt.resolve(u.Elem())}
		fv.assumeRange(st, r)
		return r
	case *types.Array:
		if !fv.spec {
			fv.oblige(st, "safe.index", exprString(fv.prog.Fset, n), fmt.Sprintf("(and (<= 0 %s) (< %s %d))", i.T, i.T, u.Len()), n, nil)
		}
		return Val{fmt.Sprintf("(select %s %s)", c.T, i.T), fv.smt.resolve(u.Elem())}
	case *types.Pointer:
		if a, ok := u.Elem().Underlying().(*types.Array); ok {
			return fv.indexVal(st, Val{c.T, a}, i, n)
		}
	}
	fv.unsupported(n, "index of "+ct.String())
	return Val{fv.fresh("unk", fv.smt.sortOf(fv.typeOf(n.(ast.Expr)))), fv.typeOf(n.(ast.Expr))}
}

// shifted array: a fresh array b with b[j] = a[j+off] for 0 <= j < n
func (fv *FnV) shiftArray(st *State, arrT, off, n string, elemSort string) string {
	if off == "0" {
		return arrT
	}
	b := fv.fresh("sl", "(Array Int "+elemSort+")")
	st.assume(fmt.Sprintf("(forall ((j!q Int)) (! (=> (and (<= 0 j!q) (< j!q %s)) (= (select %s j!q) (select %s (+ j!q %s)))) :pattern ((select %s j!q))))", n, b, arrT, off, b))
	return b
}

func (fv *FnV) evalSliceExpr(st *State, x *ast.SliceExpr) Val {
	c := fv.eval(st, x.X)
	ct := fv.smt.resolve(c.Ty)
	if _, ok := ct.Underlying().(*types.Slice); !ok {
		fv.unsupported(x, "slice expression on "+ct.String())
		return Val{fv.fresh("unk", fv.smt.sortOf(fv.typeOf(x))), fv.typeOf(x)}
	}
	_, lenT, arrT, nilT := fv.sliceParts(c)
	lo, hi := "0", lenT
	if x.Low != nil {
		lo = fv.eval(st, x.Low).T
	}
	if x.High != nil {
		hi = fv.eval(st, x.High).T
	}
	if x.Slice3 {
		fv.unsupported(x, "3-index slice")
	}
	if !fv.spec {
		// capacity is not modelled: slicing beyond len is reported
		fv.oblige(st, "safe.slice", exprString(fv.prog.Fset, x), fmt.Sprintf("(and (<= 0 %s) (<= %s %s) (<= %s %s))", lo, lo, hi, hi, lenT), x, nil)
	}
	n := fv.name("n", fmt.Sprintf("(- %s %s)", hi, lo), "Int")
	if lo == "0" {
		n = hi
	}
	arr := fv.shiftArray(st, arrT, lo, n, fv.smt.sortOf(elemType(ct)))
	return fv.mkSlice(ct, n, arr, nilT)
}

func (fv *FnV) evalUnary(st *State, x *ast.UnaryExpr) Val {
	switch x.Op {
	case token.NOT:
		v := fv.eval(st, x.X)
		return Val{not(v.T), v.Ty}
	case token.SUB:
		v := fv.eval(st, x.X)
		ty := fv.typeOf(x)
		if isFloatType(ty) {
			return Val{fmt.Sprintf("(- %s)", v.T), ty}
		}
		return fv.arith(st, token.SUB, Val{"0", ty}, v, ty, x)
	case token.ADD:
		return fv.eval(st, x.X)
	case token.XOR:
		// ^x == -x-1 for signed integers
		v := fv.eval(st, x.X)
		ty := fv.typeOf(x)
		if isIntType(ty) && !isUnsigned(ty) {
			return Val{fmt.Sprintf("(- (- %s) 1)", v.T), ty}
		}
		fv.unsupported(x, "unary ^ on unsigned")
		return Val{fv.fresh("unk", "Int"), ty}
	case token.AND:
		// address-of
		if cl, ok := ast.Unparen(x.X).(*ast.CompositeLit); ok {
			t := fv.typeOf(cl)
			if fv.smt.isHeapStruct(t) {
				return fv.allocStruct(st, cl, t)
			}
			v := fv.evalComposite(st, cl, t)
			return Val{v.T, fv.typeOf(x)}
		}
		v := fv.eval(st, x.X)
		pt := fv.typeOf(x)
		if fv.smt.isHeapPtr(pt) {
			fv.unsupported(x, "address of heap struct value")
			return Val{fv.fresh("addr", "Int"), pt}
		}
		// pointer to value: represented by the value (write-back handled at the call site)
		return Val{v.T, pt}
	}
	fv.unsupported(x, "unary "+x.Op.String())
	return Val{fv.fresh("unk", fv.smt.sortOf(fv.typeOf(x))), fv.typeOf(x)}
}

func (fv *FnV) allocRef(st *State, t types.Type) string {
	r := fv.fresh("new", "Int")
	al := fv.heapGet(st, "$alloc")
	st.assume(fmt.Sprintf("(> %s 0)", r))
	st.assume(fmt.Sprintf("(not (select %s %s))", al, r))
	st.heap["$alloc"] = fv.name("alloc", fmt.Sprintf("(store %s %s true)", al, r), "(Array Int Bool)")
	snap := make(map[string]string, len(st.heap))
	for k, v := range st.heap {
		snap[k] = v
	}
	st.fresh = append(st.fresh, freshRef{ref: r, snap: snap})
	return r
}

func (fv *FnV) allocStruct(st *State, cl *ast.CompositeLit, t types.Type) Val {
	stt := fv.smt.resolve(t).Underlying().(*types.Struct)
	vals := make([]string, stt.NumFields())
	for i := range vals {
		vals[i] = fv.smt.zeroOf(stt.Field(i).Type())
	}
	for i, el := range cl.Elts {
		if kv, ok := el.(*ast.KeyValueExpr); ok {
			name := kv.Key.(*ast.Ident).Name
			for j := 0; j < stt.NumFields(); j++ {
				if stt.Field(j).Name() == name {
					vals[j] = fv.evalAs(st, kv.Value, stt.Field(j).Type()).T
				}
			}
		} else {
			vals[i] = fv.evalAs(st, el, stt.Field(i).Type()).T
		}
	}
	r := fv.allocRef(st, t)
	for j := 0; j < stt.NumFields(); j++ {
		key := fv.heapKey(t, stt.Field(j).Name())
		st.heap[key] = fv.name("H_"+key, fmt.Sprintf("(store %s %s %s)", fv.heapGet(st, key), r, vals[j]), fv.heapSort(key))
	}
	return Val{r, types.NewPointer(t)}
}

// evalAs evaluates e for a destination of type t (composite literal elements may be
// composite literals without explicit type)
func (fv *FnV) evalAs(st *State, e ast.Expr, t types.Type) Val {
	if cl, ok := e.(*ast.CompositeLit); ok && cl.Type == nil {
		t = fv.smt.resolve(t)
		if pt, ok := t.Underlying().(*types.Pointer); ok && fv.smt.isHeapPtr(pt) {
			return fv.allocStruct(st, cl, pt.Elem())
		}
		return fv.evalComposite(st, cl, t)
	}
	return fv.convertTo(fv.eval(st, e), t)
}

func (fv *FnV) evalComposite(st *State, cl *ast.CompositeLit, t types.Type) Val {
	t = fv.smt.resolve(t)
	switch u := t.Underlying().(type) {
	case *types.Struct:
		sn := fv.smt.sortOf(t)
		vals := make([]string, u.NumFields())
		for i := range vals {
			vals[i] = fv.smt.zeroOf(u.Field(i).Type())
		}
		for i, el := range cl.Elts {
			if kv, ok := el.(*ast.KeyValueExpr); ok {
				name := kv.Key.(*ast.Ident).Name
				for j := 0; j < u.NumFields(); j++ {
					if u.Field(j).Name() == name {
						vals[j] = fv.evalAs(st, kv.Value, u.Field(j).Type()).T
					}
				}
			} else {
				vals[i] = fv.evalAs(st, el, u.Field(i).Type()).T
			}
		}
		if len(vals) == 0 {
			vals = []string{"0"}
		}
		return Val{"(mk_" + sn + " " + strings.Join(vals, " ") + ")", t}
	case *types.Slice:
		es := fv.smt.sortOf(u.Elem())
		arr := fmt.Sprintf("((as const (Array Int %s)) %s)", es, fv.smt.zeroOf(u.Elem()))
		for i, el := range cl.Elts {
			if _, ok := el.(*ast.KeyValueExpr); ok {
				fv.unsupported(el, "keyed slice literal")
				continue
			}
			v := fv.evalAs(st, el, u.Elem())
			arr = fmt.Sprintf("(store %s %d %s)", arr, i, v.T)
		}
		arr = fv.name("lit", arr, "(Array Int "+es+")")
		return fv.mkSlice(t, fmt.Sprintf("%d", len(cl.Elts)), arr, "false")
	case *types.Array:
		es := fv.smt.sortOf(u.Elem())
		arr := fmt.Sprintf("((as const (Array Int %s)) %s)", es, fv.smt.zeroOf(u.Elem()))
		for i, el := range cl.Elts {
			v := fv.evalAs(st, el, u.Elem())
			arr = fmt.Sprintf("(store %s %d %s)", arr, i, v.T)
		}
		return Val{fv.name("lit", arr, "(Array Int "+es+")"), t}
	}
	fv.unsupported(cl, "composite literal of "+t.String())
	return Val{fv.fresh("unk", fv.smt.sortOf(t)), t}
}

func (fv *FnV) convertTo(v Val, t types.Type) Val {
	t = fv.smt.resolve(t)
	if v.Ty == nil {
		return Val{v.T, t}
	}
	if b, ok := v.Ty.(*types.Basic); ok && b.Kind() == types.UntypedNil {
		return Val{fv.smt.zeroOf(t), t}
	}
	// int constant flowing into float context is handled by go/types (typed constants)
	return Val{v.T, t}
}

func (fv *FnV) eqTerm(a, b Val) string {
	an := isNilVal(a)
	bn := isNilVal(b)
	if an && bn {
		return "true"
	}
	if an {
		a, b = b, a
		bn = true
	}
	if bn {
		t := fv.smt.resolve(a.Ty)
		if _, ok := t.Underlying().(*types.Slice); ok {
			_, _, _, nilT := fv.sliceParts(a)
			return nilT
		}
		return fmt.Sprintf("(= %s %s)", a.T, fv.smt.zeroOf(t))
	}
	return fmt.Sprintf("(= %s %s)", a.T, b.T)
}

func isNilVal(v Val) bool {
	b, ok := v.Ty.(*types.Basic)
	return ok && b.Kind() == types.UntypedNil
}

func (fv *FnV) evalBinary(st *State, x *ast.BinaryExpr) Val {
	switch x.Op {
	case token.LAND, token.LOR:
		a := fv.eval(st, x.X)
		if fv.spec {
			b := fv.eval(st, x.Y)
			if x.Op == token.LAND {
				return Val{fmt.Sprintf("(and %s %s)", a.T, b.T), types.Typ[types.Bool]}
			}
			return Val{fmt.Sprintf("(or %s %s)", a.T, b.T), types.Typ[types.Bool]}
		}
		at := fv.name("sc", a.T, "Bool")
		// short circuit: obligations of the right operand are conditional
		n := len(st.pc)
		if x.Op == token.LAND {
			st.pc = append(st.pc, at)
		} else {
			st.pc = append(st.pc, not(at))
		}
		b := fv.eval(st, x.Y)
		// facts assumed while evaluating b are kept only under the guard
		extra := append([]string{}, st.pc[n+1:]...)
		guard := st.pc[n]
		st.pc = st.pc[:n]
		for _, f := range extra {
			st.assume(fmt.Sprintf("(=> %s %s)", guard, f))
		}
		if x.Op == token.LAND {
			return Val{fmt.Sprintf("(and %s %s)", at, b.T), types.Typ[types.Bool]}
		}
		return Val{fmt.Sprintf("(or %s %s)", at, b.T), types.Typ[types.Bool]}
	}
	a := fv.eval(st, x.X)
	b := fv.eval(st, x.Y)
	ty := fv.typeOf(x)
	return fv.binop(st, x.Op, a, b, ty, x, exprString(fv.prog.Fset, x))
}

func (fv *FnV) binop(st *State, op token.Token, a, b Val, ty types.Type, n ast.Node, text string) Val {
	boolT := types.Type(types.Typ[types.Bool])
	switch op {
	case token.EQL:
		return Val{fv.eqTerm(a, b), boolT}
	case token.NEQ:
		return Val{not(fv.eqTerm(a, b)), boolT}
	case token.LSS:
		return Val{fmt.Sprintf("(< %s %s)", a.T, b.T), boolT}
	case token.LEQ:
		return Val{fmt.Sprintf("(<= %s %s)", a.T, b.T), boolT}
	case token.GTR:
		return Val{fmt.Sprintf("(> %s %s)", a.T, b.T), boolT}
	case token.GEQ:
		return Val{fmt.Sprintf("(>= %s %s)", a.T, b.T), boolT}
	}
	opTy := ty
	if op == token.SHL || op == token.SHR {
		opTy = a.Ty
	}
	if isFloatType(opTy) && fv.fround && !fv.spec && (op == token.ADD || op == token.SUB || op == token.MUL || op == token.QUO) {
		sym := map[token.Token]string{token.ADD: "+", token.SUB: "-", token.MUL: "*", token.QUO: "/"}[op]
		if op == token.QUO {
			fv.floatDivs = append(fv.floatDivs, b.T)
		}
		exact := fmt.Sprintf("(%s %s %s)", sym, a.T, b.T)
		_, la := parseRealLit(a.T)
		_, lb := parseRealLit(b.T)
		if la && lb {
			return Val{exact, ty}
		}
		r := fv.fresh("fr", "Real")
		e := fv.fresh("fe", "Real")
		fv.decls = append(fv.decls, fmt.Sprintf("(assert (and (= %s (* %s (+ 1.0 %s))) (<= (- (/ 1.0 9007199254740992.0)) %s) (<= %s (/ 1.0 9007199254740992.0))))", r, exact, e, e, e))
		// rounding keeps the sign and zero (ground consequences of the relative-error model, stated so that the
		// solver need not derive them from the nonlinear definition); a square is non-negative
		fv.decls = append(fv.decls, fmt.Sprintf("(assert (and (=> (> %s 0.0) (> %s 0.0)) (=> (< %s 0.0) (< %s 0.0)) (=> (= %s 0.0) (= %s 0.0))))", exact, r, exact, r, exact, r))
		if op == token.MUL && a.T == b.T {
			fv.decls = append(fv.decls, fmt.Sprintf("(assert (and (>= %s 0.0) (=> (not (= %s 0.0)) (> %s 0.0))))", exact, a.T, exact))
		}
		if op == token.QUO {
			fv.decls = append(fv.decls, fmt.Sprintf("(assert (and (=> (and (> %s 0.0) (> %s 0.0)) (> %s 0.0)) (=> (and (= %s 0.0) (not (= %s 0.0))) (= %s 0.0))))", a.T, b.T, exact, a.T, b.T, exact))
		}
		// rounding is a monotone function of the exact value: equal exact results round to the same float
		for _, o := range fv.froundOps {
			fv.decls = append(fv.decls, fmt.Sprintf("(assert (and (=> (<= %s %s) (<= %s %s)) (=> (<= %s %s) (<= %s %s))))", o[0], exact, o[1], r, exact, o[0], r, o[1]))
		}
		fv.froundOps = append(fv.froundOps, [2]string{exact, r})
		return Val{r, ty}
	}
	if isFloatType(opTy) {
		fv.tag("float-as-real")
		switch op {
		case token.ADD:
			return Val{fmt.Sprintf("(+ %s %s)", a.T, b.T), ty}
		case token.SUB:
			return Val{fmt.Sprintf("(- %s %s)", a.T, b.T), ty}
		case token.MUL:
			return Val{fmt.Sprintf("(* %s %s)", a.T, b.T), ty}
		case token.QUO:
			if !fv.spec {
				fv.floatDivs = append(fv.floatDivs, b.T)
			}
			return Val{fmt.Sprintf("(/ %s %s)", a.T, b.T), ty}
		}
	}
	if isBoolType(opTy) {
		fv.unsupported(n, "boolean operator "+op.String())
	}
	return fv.arith(st, op, a, b, ty, n)
}

// divmodConst returns quotient and remainder of x by the positive constant c (floor
// semantics) as fresh constants tied to x by linear facts; much easier for the solvers
// than native div/mod inside nonlinear goals.
func (fv *FnV) divmodConst(x string, c *big.Int) (string, string) {
	cs := c.String()
	if fv.spec || fv.noName {
		return fmt.Sprintf("(div %s %s)", x, cs), fmt.Sprintf("(mod %s %s)", x, cs)
	}
	if fv.dm == nil {
		fv.dm = map[string][2]string{}
	}
	key := x + "/" + cs
	if v, ok := fv.dm[key]; ok {
		return v[0], v[1]
	}
	q := fv.fresh("q", "Int")
	r := fv.fresh("r", "Int")
	fv.decls = append(fv.decls, fmt.Sprintf("(assert (and (= %s (+ (* %s %s) %s)) (<= 0 %s) (< %s %s)))", x, cs, q, r, r, r, cs))
	fv.dm[key] = [2]string{q, r}
	return q, r
}

func pow2(k int) *big.Int { return new(big.Int).Lsh(big.NewInt(1), uint(k)) }

func parseIntLit(s string) (*big.Int, bool) {
	s = strings.TrimSpace(s)
	neg := false
	if strings.HasPrefix(s, "(- ") && strings.HasSuffix(s, ")") {
		neg = true
		s = s[3 : len(s)-1]
	}
	bi, ok := new(big.Int).SetString(s, 10)
	if !ok {
		return nil, false
	}
	if neg {
		bi.Neg(bi)
	}
	return bi, true
}

// parseRealLit recognises a numeric SMT literal (constant folding of float constants is exact in Go)
func parseRealLit(s string) (string, bool) {
	s = strings.TrimSpace(s)
	s = strings.TrimPrefix(s, "(- ")
	s = strings.TrimSuffix(s, ")")
	if s == "" {
		return "", false
	}
	for _, c := range s {
		if !(c >= '0' && c <= '9') && c != '.' {
			return "", false
		}
	}
	return s, true
}

func tdiv(a, b string) string {
	if bl, ok := parseIntLit(b); ok && bl.Sign() > 0 {
		return fmt.Sprintf("(ite (>= %s 0) (div %s %s) (- (div (- %s) %s)))", a, a, b, a, b)
	}
	return fmt.Sprintf("(ite (>= %s 0) (ite (> %s 0) (div %s %s) (- (div %s (- %s)))) (ite (> %s 0) (- (div (- %s) %s)) (div (- %s) (- %s))))", a, b, a, b, a, b, b, a, b, a, b)
}

// integer arithmetic with overflow obligations (exact mode) or wrap-around (wrap mode)
func (fv *FnV) arith(st *State, op token.Token, a, b Val, ty types.Type, n ast.Node) Val {
	ty = fv.smt.resolve(ty)
	var t string
	check := true
	text := ""
	if n != nil {
		text = exprString(fv.prog.Fset, n)
	}
	switch op {
	case token.ADD:
		t = fmt.Sprintf("(+ %s %s)", a.T, b.T)
	case token.SUB:
		t = fmt.Sprintf("(- %s %s)", a.T, b.T)
	case token.MUL:
		t = fmt.Sprintf("(* %s %s)", a.T, b.T)
		if _, la := parseIntLit(a.T); !la && !fv.spec && !fv.noName {
			if _, lb := parseIntLit(b.T); !lb && len(a.T)+len(b.T) < 400 {
				// product-bound hint (a true fact about integers, instantiated for this product):
				// |x|,|y| < 2^31 ==> |x*y| < 2^62.  Linear arithmetic over the product term then
				// settles the usual "two guarded products fit into int64" obligations.
				if fv.mulHints == nil {
					fv.mulHints = map[string]bool{}
				}
				if !fv.mulHints[t] {
					fv.mulHints[t] = true
					fv.decls = append(fv.decls, fmt.Sprintf("(assert (=> (and (< (- 2147483648) %s) (< %s 2147483648) (< (- 2147483648) %s) (< %s 2147483648)) (and (< (- 4611686018427387904) %s) (< %s 4611686018427387904))))", a.T, a.T, b.T, b.T, t, t))
				}
			}
		}
	case token.QUO:
		if !fv.spec {
			fv.oblige(st, "safe.div", text, fmt.Sprintf("(not (= %s 0))", b.T), n, nil)
		}
		if fv.spec && isIntType(ty) {
			// mathematical specs use floor division only on positive divisors; keep Go semantics
		}
		t = tdiv(a.T, b.T)
	case token.REM:
		if !fv.spec {
			fv.oblige(st, "safe.div", text, fmt.Sprintf("(not (= %s 0))", b.T), n, nil)
		}
		at := fv.name("a", a.T, "Int")
		bt := fv.name("b", b.T, "Int")
		t = fmt.Sprintf("(- %s (* %s %s))", at, bt, tdiv(at, bt))
		check = false
	case token.SHL:
		if k, ok := parseIntLit(b.T); ok && k.IsInt64() && k.Int64() >= 0 && k.Int64() < 128 {
			t = fmt.Sprintf("(* %s %s)", a.T, pow2(int(k.Int64())).String())
		} else if fv.provable(st, fmt.Sprintf("(and (<= 0 %s) (< %s 8))", b.T, b.T)) {
			// a small variable shift amount (bit masks such as 1 << j): a case split over the eight possible amounts
			t = fmt.Sprintf("(* %s 128)", a.T)
			for k := 6; k >= 0; k-- {
				t = fmt.Sprintf("(ite (= %s %d) (* %s %s) %s)", b.T, k, a.T, pow2(k).String(), t)
			}
		} else {
			fv.unsupported(n, "shift by non-constant")
			t = fv.fresh("shl", "Int")
		}
	case token.SHR:
		if k, ok := parseIntLit(b.T); ok && k.IsInt64() && k.Int64() >= 0 && k.Int64() < 128 {
			t, _ = fv.divmodConst(a.T, pow2(int(k.Int64())))
			check = false
		} else {
			fv.unsupported(n, "shift by non-constant")
			t = fv.fresh("shr", "Int")
		}
	case token.AND, token.OR, token.XOR, token.AND_NOT:
		t = fv.bitop(st, op, a, b, ty, n)
		check = false
	default:
		fv.unsupported(n, "operator "+op.String())
		t = fv.fresh("op", "Int")
	}
	if !isIntType(ty) {
		return Val{t, ty}
	}
	if fv.spec || fv.mathInts {
		return Val{t, ty}
	}
	lo, hi, ok := intRange(ty)
	if !ok {
		return Val{t, ty}
	}
	if fv.wrap || (isUnsigned(ty) && fv.wrapUnsigned) {
		if check {
			t = fv.name("w", t, "Int")
			m := new(big.Int).Add(new(big.Int).Sub(hi, lo), big.NewInt(1))
			if lo.Sign() == 0 {
				t = fmt.Sprintf("(mod %s %s)", t, m.String())
			} else {
				t = fmt.Sprintf("(- (mod (+ %s %s) %s) %s)", t, new(big.Int).Neg(lo).String(), m.String(), new(big.Int).Neg(lo).String())
			}
		}
		return Val{t, ty}
	}
	if check {
		t0 := t
		t = fv.name("ar", t, "Int")
		if k, ok := shlAmount(t0); ok && op == token.SHL {
			if fv.shl == nil {
				fv.shl = map[string]int{}
			}
			fv.shl[t] = k
		}
		fv.oblige(st, "safe.overflow", text, fmt.Sprintf("(and (<= %s %s) (<= %s %s))", bigLit(lo), t, t, bigLit(hi)), n, nil)
	}
	return Val{t, ty}
}

// bit operations: supported when one operand is a constant (masks, flags)
func (fv *FnV) bitop(st *State, op token.Token, a, b Val, ty types.Type, n ast.Node) string {
	ca, aok := parseIntLit(a.T)
	cb, bok := parseIntLit(b.T)
	if aok && !bok {
		if op == token.AND_NOT {
			fv.unsupported(n, "constant &^ x")
			return fv.fresh("bit", "Int")
		}
		a, b, ca, cb, aok, bok = b, a, cb, ca, bok, aok
	}
	_ = ca
	bits := 64
	if lo, hi, ok := intRange(ty); ok {
		_ = lo
		bits = hi.BitLen()
	}
	if !bok {
		// general case for small types, or for operands that are provably small bit sets: decompose both into bits
		if bits > 8 && fv.provable(st, fmt.Sprintf("(and (<= 0 %s) (< %s 256) (<= 0 %s) (< %s 256))", a.T, a.T, b.T, b.T)) {
			bits = 8
			if fv.provable(st, fmt.Sprintf("(and (< %s 16) (< %s 16))", a.T, b.T)) {
				bits = 4
			}
		}
		if bits <= 8 {
			at := fv.name("a", a.T, "Int")
			bt := fv.name("b", b.T, "Int")
			var terms []string
			for k := 0; k < bits; k++ {
				p := pow2(k).String()
				ba := fmt.Sprintf("(mod (div %s %s) 2)", at, p)
				bb := fmt.Sprintf("(mod (div %s %s) 2)", bt, p)
				var bit string
				switch op {
				case token.AND:
					bit = fmt.Sprintf("(* %s %s)", ba, bb)
				case token.OR:
					bit = fmt.Sprintf("(- (+ %s %s) (* %s %s))", ba, bb, ba, bb)
				case token.XOR:
					bit = fmt.Sprintf("(mod (+ %s %s) 2)", ba, bb)
				case token.AND_NOT:
					bit = fmt.Sprintf("(* %s (- 1 %s))", ba, bb)
				}
				terms = append(terms, fmt.Sprintf("(* %s %s)", p, bit))
			}
			return "(+ " + strings.Join(terms, " ") + ")"
		}
		// (x << k) | y with y < 2^k : handled as addition with a side obligation
		if op == token.OR {
			k, ok := shlAmount(a.T)
			if k2, ok2 := fv.shl[a.T]; ok2 {
				k, ok = k2, true
			}
			if ok {
				if !fv.spec {
					fv.oblige(st, "safe.bitor", exprString(fv.prog.Fset, n), fmt.Sprintf("(and (<= 0 %s) (< %s %s))", b.T, b.T, pow2(k).String()), n, nil)
				}
				return fmt.Sprintf("(+ %s %s)", a.T, b.T)
			}
		}
		fv.unsupported(n, "bit operation on two non-constant operands")
		return fv.fresh("bit", "Int")
	}
	if cb.Sign() < 0 {
		fv.unsupported(n, "bit operation with negative constant")
		return fv.fresh("bit", "Int")
	}
	at := fv.name("a", a.T, "Int")
	// mask of the form 2^k-1
	if op == token.AND {
		m1 := new(big.Int).Add(cb, big.NewInt(1))
		if m1.BitLen() > 0 && new(big.Int).And(m1, cb).Sign() == 0 {
			_, r := fv.divmodConst(at, m1)
			return r
		}
	}
	var terms []string
	for k := 0; k < cb.BitLen(); k++ {
		if cb.Bit(k) == 0 {
			continue
		}
		p := pow2(k).String()
		ba := fmt.Sprintf("(mod (div %s %s) 2)", at, p)
		switch op {
		case token.AND:
			terms = append(terms, fmt.Sprintf("(* %s %s)", p, ba))
		case token.OR:
			terms = append(terms, fmt.Sprintf("(* %s (- 1 %s))", p, ba))
		case token.AND_NOT:
			terms = append(terms, fmt.Sprintf("(* %s %s)", p, ba))
		case token.XOR:
			terms = append(terms, fmt.Sprintf("(* %s (- 1 (* 2 %s)))", p, ba))
		}
	}
	if len(terms) == 0 {
		if op == token.AND {
			return "0"
		}
		return at
	}
	sum := "(+ " + strings.Join(terms, " ") + ")"
	if len(terms) == 1 {
		sum = terms[0]
	}
	switch op {
	case token.AND:
		return sum
	case token.OR, token.XOR:
		return fmt.Sprintf("(+ %s %s)", at, sum)
	case token.AND_NOT:
		return fmt.Sprintf("(- %s %s)", at, sum)
	}
	return at
}

func shlAmount(t string) (int, bool) {
	// recognise (* X 2^k) produced by SHL, possibly behind a name: only literal pattern
	if strings.HasPrefix(t, "(* ") && strings.HasSuffix(t, ")") {
		i := strings.LastIndex(t, " ")
		if c, ok := parseIntLit(t[i+1 : len(t)-1]); ok && c.Sign() > 0 {
			k := c.BitLen() - 1
			if pow2(k).Cmp(c) == 0 {
				return k, true
			}
		}
	}
	return 0, false
}

// ------------------------------------------------------------------ assignment

func (fv *FnV) assign(st *State, lhs ast.Expr, v Val) {
	if isNilVal(v) {
		// untyped nil takes the zero value of the destination's type (nil slice, nil pointer, ...)
		if lt := fv.typeOf(lhs); lt != nil {
			v = fv.convertTo(v, lt)
		}
	}
	switch x := lhs.(type) {
	case *ast.ParenExpr:
		fv.assign(st, x.X, v)
	case *ast.Ident:
		if x.Name == "_" {
			return
		}
		obj := fv.prog.Info.Uses[x]
		if obj == nil {
			obj = fv.prog.Info.Defs[x]
		}
		vo, ok := obj.(*types.Var)
		if !ok {
			fv.unsupported(x, "assignment to "+x.Name)
			return
		}
		if vo.Parent() == fv.prog.Pkg.Scope() {
			fv.unsupported(x, "write to package-level variable "+x.Name)
			return
		}
		st.vars[vo] = fv.nameVal(x.Name, fv.convertTo(v, vo.Type()))
		if fv.fc != nil && fv.fc.Forget[x.Name] && len(fv.frames) == 1 && !fv.spec {
			st.vars[vo] = fv.freshVal(x.Name, vo.Type(), st)
		}
	case *ast.StarExpr:
		pt := fv.typeOf(x.X)
		if fv.smt.isHeapPtr(pt) {
			p := fv.eval(st, x.X)
			fv.nilCheck(st, p, x)
			et := pt.Underlying().(*types.Pointer).Elem()
			stt := et.Underlying().(*types.Struct)
			for i := 0; i < stt.NumFields(); i++ {
				key := fv.heapKey(et, stt.Field(i).Name())
				fval := fmt.Sprintf("(%s_%s %s)", fv.smt.sortOf(et), stt.Field(i).Name(), v.T)
				st.heap[key] = fv.name("H_"+key, fmt.Sprintf("(store %s %s %s)", fv.heapGet(st, key), p.T, fval), fv.heapSort(key))
			}
			return
		}
		// pointer to value: update the variable that holds the pointee
		fv.tag("value-pointers")
		fv.assign(st, x.X, Val{v.T, pt})
	case *ast.SelectorExpr:
		sel := fv.prog.Info.Selections[x]
		if sel == nil || sel.Kind() != types.FieldVal {
			fv.unsupported(x, "assignment to selector")
			return
		}
		fv.storePath(st, x.X, sel.Index(), v, x)
	case *ast.IndexExpr:
		c := fv.eval(st, x.X)
		i := fv.eval(st, x.Index)
		ct := fv.smt.resolve(c.Ty)
		switch u := ct.Underlying().(type) {
		case *types.Slice:
			_, lenT, arrT, nilT := fv.sliceParts(c)
			fv.oblige(st, "safe.index", exprString(fv.prog.Fset, x), fmt.Sprintf("(and (<= 0 %s) (< %s %s))", i.T, i.T, lenT), x, nil)
			nv := fv.mkSlice(ct, lenT, fmt.Sprintf("(store %s %s %s)", arrT, i.T, v.T), nilT)
			fv.assign(st, x.X, nv)
		case *types.Array:
			fv.oblige(st, "safe.index", exprString(fv.prog.Fset, x), fmt.Sprintf("(and (<= 0 %s) (< %s %d))", i.T, i.T, u.Len()), x, nil)
			fv.assign(st, x.X, Val{fmt.Sprintf("(store %s %s %s)", c.T, i.T, v.T), ct})
		default:
			fv.unsupported(x, "index assignment on "+ct.String())
		}
	default:
		fv.unsupported(lhs, fmt.Sprintf("assignment target %T", lhs))
	}
}

// storePath assigns v to base.f1.f2...fk (field indices path)
func (fv *FnV) storePath(st *State, base ast.Expr, path []int, v Val, n ast.Node) {
	bv := fv.eval(st, base)
	// walk to the container of the last field
	type step struct {
		cont Val
		idx  int
	}
	var steps []step
	cur := bv
	for k, i := range path {
		steps = append(steps, step{cur, i})
		if k < len(path)-1 {
			cur = fv.fieldOf(st, cur, i, n)
		}
	}
	// process from the last step backwards
	newVal := v
	for k := len(steps) - 1; k >= 0; k-- {
		s := steps[k]
		ct := fv.smt.resolve(s.cont.Ty)
		if pt, ok := ct.Underlying().(*types.Pointer); ok && fv.smt.isHeapPtr(pt) {
			stt := fv.smt.resolve(pt.Elem()).Underlying().(*types.Struct)
			f := stt.Field(s.idx)
			fv.nilCheck(st, s.cont, n)
			key := fv.heapKey(pt.Elem(), f.Name())
			st.heap[key] = fv.name("H_"+key, fmt.Sprintf("(store %s %s %s)", fv.heapGet(st, key), s.cont.T, newVal.T), fv.heapSort(key))
			return
		}
		// value struct (or pointer-to-value): rebuild
		var structT types.Type = ct
		if pt, ok := ct.Underlying().(*types.Pointer); ok {
			structT = fv.smt.resolve(pt.Elem())
		}
		stt, ok := structT.Underlying().(*types.Struct)
		if !ok {
			fv.unsupported(n, "field store into "+ct.String())
			return
		}
		sn := fv.smt.sortOf(structT)
		var fs []string
		for j := 0; j < stt.NumFields(); j++ {
			if j == s.idx {
				fs = append(fs, newVal.T)
			} else {
				fs = append(fs, fmt.Sprintf("(%s_%s %s)", sn, stt.Field(j).Name(), s.cont.T))
			}
		}
		newVal = Val{"(mk_" + sn + " " + strings.Join(fs, " ") + ")", s.cont.Ty}
	}
	fv.assign(st, base, newVal)
}
