package main

// Replay: turn a solver model into a call of the real function (in-package test injected
// with `go test -overlay`, nothing is written into /repo) and evaluate the violated clause
// with the executable form of the contract (the synthesized spec file is real Go).

import (
	"encoding/json"
	"fmt"
	"go/ast"
	"go/token"
	"go/types"
	"sort"
	"math/big"
	"os"
	"os/exec"
	"path/filepath"
	"strings"
	"time"
)

// ---------------------------------------------------------------- s-expressions

type sx struct {
	atom string
	list []*sx
}

func parseSx(s string) []*sx {
	var toks []string
	i := 0
	for i < len(s) {
		c := s[i]
		switch {
		case c == '(' || c == ')':
			toks = append(toks, string(c))
			i++
		case c == ' ' || c == '\n' || c == '\t' || c == '\r':
			i++
		case c == '|':
			j := i + 1
			for j < len(s) && s[j] != '|' {
				j++
			}
			toks = append(toks, s[i:j+1])
			i = j + 1
		case c == '"':
			j := i + 1
			for j < len(s) && s[j] != '"' {
				j++
			}
			toks = append(toks, s[i:j+1])
			i = j + 1
		default:
			j := i
			for j < len(s) && !strings.ContainsRune("() \n\t\r", rune(s[j])) {
				j++
			}
			toks = append(toks, s[i:j])
			i = j
		}
	}
	pos := 0
	var parse func() *sx
	parse = func() *sx {
		if pos >= len(toks) {
			return nil
		}
		t := toks[pos]
		pos++
		if t == "(" {
			n := &sx{}
			for pos < len(toks) && toks[pos] != ")" {
				n.list = append(n.list, parse())
			}
			pos++
			return n
		}
		return &sx{atom: t}
	}
	var out []*sx
	for pos < len(toks) {
		if toks[pos] == ")" {
			pos++
			continue
		}
		out = append(out, parse())
	}
	return out
}

func (n *sx) String() string {
	if n == nil {
		return ""
	}
	if n.list == nil && n.atom != "" {
		return n.atom
	}
	var ps []string
	for _, c := range n.list {
		ps = append(ps, c.String())
	}
	return "(" + strings.Join(ps, " ") + ")"
}

func sxRat(n *sx) (*big.Rat, bool) {
	if n == nil {
		return nil, false
	}
	if n.list == nil {
		r, ok := new(big.Rat).SetString(n.atom)
		return r, ok
	}
	if len(n.list) == 2 && n.list[0].atom == "-" {
		r, ok := sxRat(n.list[1])
		if !ok {
			return nil, false
		}
		return r.Neg(r), true
	}
	if len(n.list) == 3 && n.list[0].atom == "/" {
		a, ok1 := sxRat(n.list[1])
		b, ok2 := sxRat(n.list[2])
		if !ok1 || !ok2 || b.Sign() == 0 {
			return nil, false
		}
		return a.Quo(a, b), true
	}
	if len(n.list) == 2 && n.list[0].atom == "to_real" {
		return sxRat(n.list[1])
	}
	return nil, false
}

// ---------------------------------------------------------------- model -> Go literals

type replayArg struct {
	Name string
	Go   string // Go expression
	Note string
}

func typeStr(t types.Type, pkg *types.Package) string {
	return types.TypeString(t, func(p *types.Package) string {
		if p == pkg {
			return ""
		}
		return p.Name()
	})
}

// goLiteral renders the value of SMT term `term` (queried with get-value) as a Go expression.
func (q *modelQuery) goLiteral(term string, t types.Type) (string, bool) {
	smt := q.w.smt
	t = smt.resolve(t)
	switch u := t.Underlying().(type) {
	case *types.Basic:
		v, ok := q.value(term)
		if !ok {
			return "", false
		}
		switch {
		case u.Info()&types.IsBoolean != 0:
			return v.String(), v.atom == "true" || v.atom == "false"
		case u.Info()&types.IsInteger != 0:
			r, ok := sxRat(v)
			if !ok || !r.IsInt() {
				return "", false
			}
			lo, hi, _ := intRange(t)
			if lo != nil && (r.Num().Cmp(lo) < 0 || r.Num().Cmp(hi) > 0) {
				return "", false
			}
			return fmt.Sprintf("%s(%s)", typeStr(t, q.w.prog.Pkg), r.Num().String()), true
		case u.Info()&types.IsFloat != 0:
			r, ok := sxRat(v)
			if !ok {
				return "", false
			}
			f, exact := r.Float64()
			s := fmt.Sprintf("%v", f)
			if !exact {
				q.inexact = true
			}
			if strings.ContainsAny(s, "IN") {
				return "", false
			}
			return fmt.Sprintf("%s(%s)", typeStr(t, q.w.prog.Pkg), s), true
		}
	case *types.Struct:
		if smt.isHeapStruct(t) {
			return "", false
		}
		sn := smt.sortOf(t)
		var fs []string
		for i := 0; i < u.NumFields(); i++ {
			f := u.Field(i)
			s, ok := q.goLiteral(fmt.Sprintf("(%s_%s %s)", sn, f.Name(), term), f.Type())
			if !ok {
				return "", false
			}
			fs = append(fs, f.Name()+": "+s)
		}
		return typeStr(t, q.w.prog.Pkg) + "{" + strings.Join(fs, ", ") + "}", true
	case *types.Slice:
		sn := smt.sortOf(t)
		lv, ok := q.value(fmt.Sprintf("(len_%s %s)", sn, term))
		if !ok {
			return "", false
		}
		r, ok := sxRat(lv)
		if !ok || !r.IsInt() || r.Num().Sign() < 0 || r.Num().Cmp(big.NewInt(64)) > 0 {
			return "", false
		}
		n := int(r.Num().Int64())
		nv, _ := q.value(fmt.Sprintf("(nil_%s %s)", sn, term))
		if n == 0 && nv != nil && nv.atom == "true" {
			return typeStr(t, q.w.prog.Pkg) + "(nil)", true
		}
		var es []string
		for i := 0; i < n; i++ {
			s, ok := q.goLiteral(fmt.Sprintf("(select (arr_%s %s) %d)", sn, term, i), u.Elem())
			if !ok {
				return "", false
			}
			es = append(es, s)
		}
		return typeStr(t, q.w.prog.Pkg) + "{" + strings.Join(es, ", ") + "}", true
	case *types.Pointer:
		if smt.isHeapPtr(t) {
			return q.heapObject(term, u)
		}
		s, ok := q.goLiteral(term, u.Elem())
		if !ok {
			return "", false
		}
		return fmt.Sprintf("func() %s { v := %s; return &v }()", typeStr(t, q.w.prog.Pkg), s), true
	}
	return "", false
}

// heapObject rebuilds the object a heap reference denotes in the model's initial heap: one Go
// variable per (type, reference), fields read from the initial field arrays that occur in the
// obligation (fields the obligation never mentions keep their zero value).  Sharing and cycles
// are preserved because a reference is rendered once.
func (q *modelQuery) heapObject(term string, pt *types.Pointer) (string, bool) {
	smt := q.w.smt
	v, ok := q.value(term)
	if !ok {
		return "", false
	}
	r, ok := sxRat(v)
	if !ok || !r.IsInt() {
		return "", false
	}
	if r.Sign() == 0 {
		return "nil", true
	}
	named, ok := types.Unalias(smt.resolve(pt.Elem())).(*types.Named)
	if !ok {
		return "", false
	}
	tn := named.Origin().Obj().Name()
	key := tn + "#" + r.Num().String()
	if q.refVar == nil {
		q.refVar = map[string]string{}
	}
	if name, ok := q.refVar[key]; ok {
		return name, true
	}
	if len(q.refVar) >= 12 {
		return "", false
	}
	if q.vcText == "" {
		q.vcText = q.vc.smtText(q.prelude, "")
	}
	name := fmt.Sprintf("h%d", len(q.refVar)+1)
	q.refVar[key] = name
	q.heapPre = append(q.heapPre, fmt.Sprintf("%s := &%s{}", name, typeStr(pt.Elem(), q.w.prog.Pkg)))
	stt := named.Underlying().(*types.Struct)
	var pre []string
	for i := 0; i < stt.NumFields(); i++ {
		f := stt.Field(i)
		arr := "H0_" + sanitize(tn+"."+f.Name())
		if strings.Contains(q.vcText, "(declare-const "+arr+" ") {
			pre = append(pre, q.fieldTerms(fmt.Sprintf("(select %s %s)", arr, r.Num().String()), f.Type(), 0)...)
		}
	}
	q.prefetch(pre)
	for i := 0; i < stt.NumFields(); i++ {
		f := stt.Field(i)
		arr := "H0_" + sanitize(tn+"."+f.Name())
		if !strings.Contains(q.vcText, "(declare-const "+arr+" ") {
			continue
		}
		lit, ok := q.goLiteral(fmt.Sprintf("(select %s %s)", arr, r.Num().String()), f.Type())
		if !ok {
			q.inexact = true
			continue
		}
		q.heapPre = append(q.heapPre, fmt.Sprintf("%s.%s = %s", name, f.Name(), lit))
	}
	return name, true
}

// modelQuery evaluates terms in the model of a sat obligation by re-running the solver
// with (get-value ...) — solver runs are deterministic, so the model is the same.
type modelQuery struct {
	w       *World
	vc      *VC
	prelude string
	dir     string
	cache   map[string]*sx
	inexact bool
	solver  string
	refVar  map[string]string // (type#ref) -> Go variable of the rebuilt heap object
	heapPre []string          // statements that rebuild the heap objects
	vcText  string
	calls   int
}

// prefetch evaluates many terms with one solver run and fills the cache.
func (q *modelQuery) prefetch(terms []string) {
	var need []string
	for _, t := range terms {
		if _, ok := q.cache[t]; !ok {
			need = append(need, t)
		}
	}
	if len(need) == 0 || q.calls > 60 {
		return
	}
	q.calls++
	file := filepath.Join(q.dir, "model_query.smt2")
	os.WriteFile(file, []byte(q.vc.smtText(q.prelude, fmt.Sprintf("(get-value (%s))\n", strings.Join(need, " ")))), 0o644)
	var cfg SolverCfg
	for _, s := range solvers {
		if s.Name == q.solver {
			cfg = s
		}
	}
	if cfg.Cmd == nil {
		cfg = solvers[0]
	}
	args := cfg.Cmd(file, 30, 0)
	out, _ := exec.Command(args[0], args[1:]...).CombinedOutput()
	text := strings.TrimSpace(string(out))
	if !strings.HasPrefix(text, "sat") {
		return
	}
	xs := parseSx(strings.TrimSpace(text[3:]))
	if len(xs) == 0 || len(xs[0].list) != len(need) {
		return
	}
	for i, pr := range xs[0].list {
		if len(pr.list) == 2 {
			q.cache[need[i]] = pr.list[1]
		}
	}
}

// fieldTerms lists the terms goLiteral will ask for when rendering a value of type t at term.
func (q *modelQuery) fieldTerms(term string, t types.Type, depth int) []string {
	smt := q.w.smt
	t = smt.resolve(t)
	switch u := t.Underlying().(type) {
	case *types.Basic:
		return []string{term}
	case *types.Pointer:
		if smt.isHeapPtr(t) {
			return []string{term}
		}
		return q.fieldTerms(term, u.Elem(), depth)
	case *types.Struct:
		if smt.isHeapStruct(t) || depth > 2 {
			return nil
		}
		sn := smt.sortOf(t)
		var out []string
		for i := 0; i < u.NumFields(); i++ {
			out = append(out, q.fieldTerms(fmt.Sprintf("(%s_%s %s)", sn, u.Field(i).Name(), term), u.Field(i).Type(), depth+1)...)
		}
		return out
	case *types.Slice:
		sn := smt.sortOf(t)
		return []string{fmt.Sprintf("(len_%s %s)", sn, term), fmt.Sprintf("(nil_%s %s)", sn, term)}
	}
	return nil
}

func (q *modelQuery) value(term string) (*sx, bool) {
	if v, ok := q.cache[term]; ok {
		return v, v != nil
	}
	q.calls++
	if q.calls > 120 {
		return nil, false
	}
	file := filepath.Join(q.dir, "model_query.smt2")
	os.WriteFile(file, []byte(q.vc.smtText(q.prelude, fmt.Sprintf("(get-value (%s))\n", term))), 0o644)
	var cfg SolverCfg
	for _, s := range solvers {
		if s.Name == q.solver {
			cfg = s
		}
	}
	if cfg.Cmd == nil {
		cfg = solvers[0]
	}
	args := cfg.Cmd(file, 30, 0)
	out, _ := exec.Command(args[0], args[1:]...).CombinedOutput()
	text := strings.TrimSpace(string(out))
	if !strings.HasPrefix(text, "sat") {
		q.cache[term] = nil
		return nil, false
	}
	rest := strings.TrimSpace(text[3:])
	xs := parseSx(rest)
	if len(xs) == 0 || len(xs[0].list) == 0 || len(xs[0].list[0].list) != 2 {
		q.cache[term] = nil
		return nil, false
	}
	v := xs[0].list[0].list[1]
	q.cache[term] = v
	return v, true
}

// ---------------------------------------------------------------- overlay test runner

type overlayTest struct {
	Name string // Go test function name
	Body string // statements inside func(t *testing.T)
}

// runOverlayTests compiles the tests into /repo's package (overlay) and runs them.
// Returns per-test verdict: "pass", "fail" (t.Errorf/t.Fatalf), "panic", or "error".
// instrumentation: failed overflow obligations are replayed on a copy of the source file in which
// exactly the flagged operation is replaced by a checked (math/big) version that panics with
// VERIF-OVERFLOW when the machine result differs from the mathematical one.
var overlayReplace = map[string]string{}

// overlayRace: run the overlay tests under the race detector (set by runBounded for one run)
var overlayRace bool

const ovfHelpers = `//go:build verif

package PKG

import (
	"fmt"
	"math/big"

	"golang.org/x/exp/constraints"
)

func verifBig[T constraints.Integer](x T) *big.Int {
	var zero T
	if zero-1 > 0 {
		return new(big.Int).SetUint64(uint64(x))
	}
	return big.NewInt(int64(x))
}

func verifOvf[T constraints.Integer](op string, a, b T) T {
	var r T
	m := new(big.Int)
	switch op {
	case "+":
		r = a + b
		m.Add(verifBig(a), verifBig(b))
	case "-":
		r = a - b
		m.Sub(verifBig(a), verifBig(b))
	case "*":
		r = a * b
		m.Mul(verifBig(a), verifBig(b))
	}
	if verifBig(r).Cmp(m) != 0 {
		panic(fmt.Sprintf("VERIF-OVERFLOW %v %s %v = %v in machine arithmetic, %v exactly", a, op, b, r, m))
	}
	return r
}
`

// instrumentOverflow rewrites the flagged operations of the failed overflow obligations.
func instrumentOverflow(w *World, vcs []*VC, dir string) {
	type edit struct {
		start, end int
		text       string
	}
	byFile := map[string][]edit{}
	for _, vc := range vcs {
		if vc.node == nil {
			continue
		}
		var e edit
		fset := w.prog.Fset
		file := fset.Position(vc.node.Pos()).Filename
		src, err := os.ReadFile(file)
		if err != nil {
			continue
		}
		off := func(p token.Pos) int { return fset.Position(p).Offset }
		txt := func(n ast.Node) string { return string(src[off(n.Pos()):off(n.End())]) }
		switch x := vc.node.(type) {
		case *ast.BinaryExpr:
			if x.Op != token.ADD && x.Op != token.SUB && x.Op != token.MUL {
				continue
			}
			e = edit{off(x.Pos()), off(x.End()), fmt.Sprintf("verifOvf(%q, %s, %s)", x.Op.String(), txt(x.X), txt(x.Y))}
		case *ast.AssignStmt:
			op := map[token.Token]string{token.ADD_ASSIGN: "+", token.SUB_ASSIGN: "-", token.MUL_ASSIGN: "*"}[x.Tok]
			if op == "" || len(x.Lhs) != 1 {
				continue
			}
			e = edit{off(x.Pos()), off(x.End()), fmt.Sprintf("%s = verifOvf(%q, %s, %s)", txt(x.Lhs[0]), op, txt(x.Lhs[0]), txt(x.Rhs[0]))}
		case *ast.IncDecStmt:
			op := "+"
			if x.Tok == token.DEC {
				op = "-"
			}
			e = edit{off(x.Pos()), off(x.End()), fmt.Sprintf("%s = verifOvf(%q, %s, 1)", txt(x.X), op, txt(x.X))}
		default:
			continue
		}
		byFile[file] = append(byFile[file], e)
	}
	if len(byFile) == 0 {
		return
	}
	os.MkdirAll(dir, 0o755)
	for file, es := range byFile {
		src, _ := os.ReadFile(file)
		sort.Slice(es, func(i, j int) bool { return es[i].start > es[j].start })
		last := len(src) + 1
		out := string(src)
		for _, e := range es {
			if e.end > last {
				continue // overlapping edit: keep the outer/later one only
			}
			out = out[:e.start] + e.text + out[e.end:]
			last = e.start
		}
		dst := filepath.Join(dir, "instr_"+filepath.Base(file))
		os.WriteFile(dst, []byte(out), 0o644)
		overlayReplace[file] = dst
	}
	helper := filepath.Join(dir, "verif_ovf_helpers.go")
	os.WriteFile(helper, []byte(strings.Replace(ovfHelpers, "PKG", w.prog.Pkg.Name(), 1)), 0o644)
	overlayReplace[filepath.Join(w.prog.RepoDir, "zz_verif_ovf_helpers.go")] = helper
}

func runOverlayTests(w *World, tests []overlayTest, dir string, extraFiles ...string) (map[string]string, string) {
	os.MkdirAll(dir, 0o755)
	var b strings.Builder
	b.WriteString("//go:build verif\n\npackage " + w.prog.Pkg.Name() + "\n\nimport (\n\t\"fmt\"\n\t\"math\"\n\t\"testing\"\n)\n\nvar _ = fmt.Sprint\nvar _ = math.Abs\n\n")
	b.WriteString(`func verifGuard(t *testing.T, name string, f func()) {
	defer func() {
		if r := recover(); r != nil {
			fmt.Printf("VERIF-RESULT %s panic %v\n", name, r)
			return
		}
	}()
	f()
}
`)
	for _, tc := range tests {
		fmt.Fprintf(&b, "\nfunc Test%s(t *testing.T) {\n\tverifGuard(t, %q, func() {\n%s\n\t})\n}\n", tc.Name, tc.Name, tc.Body)
	}
	testFile := filepath.Join(dir, "verif_replay_test.go")
	os.WriteFile(testFile, []byte(b.String()), 0o644)
	specFile := filepath.Join(dir, "spec_verif.go")
	os.WriteFile(specFile, []byte(w.prog.SynthSrc), 0o644)
	ov := map[string]map[string]string{"Replace": {
		filepath.Join(w.prog.RepoDir, "zz_verif_replay_test.go"): testFile,
		filepath.Join(w.prog.RepoDir, "zz_spec_verif.go"):        specFile,
	}}
	for k, v := range overlayReplace {
		ov["Replace"][k] = v
	}
	for i, ef := range extraFiles {
		ov["Replace"][filepath.Join(w.prog.RepoDir, fmt.Sprintf("zz_verif_extra%d_test.go", i))] = ef
	}
	ovb, _ := json.Marshal(ov)
	ovFile := filepath.Join(dir, "overlay.json")
	os.WriteFile(ovFile, ovb, 0o644)
	args := []string{"test", "-tags", "verif", "-overlay", ovFile, "-v", "-vet=off", "-count=1", "-timeout", "600s", "-run", "^TestVerif", "."}
	if overlayRace {
		// a bounded stand-in asked for the race detector (header "race: true")
		args = append([]string{"test", "-race"}, args[1:]...)
	}
	cmd := exec.Command("go", args...)
	cmd.Dir = w.prog.RepoDir
	cmd.Env = append(os.Environ(), "GOFLAGS=-mod=mod", "GOPROXY=off")
	// the default go (auto-switching to the repo's toolchain) must come first on PATH
	cmd.Env = append(cmd.Env, "PATH="+cleanPath())
	start := time.Now()
	out, _ := cmd.CombinedOutput()
	_ = start
	text := string(out)
	res := map[string]string{}
	for _, l := range strings.Split(text, "\n") {
		if strings.HasPrefix(l, "VERIF-RESULT ") {
			f := strings.Fields(l)
			if len(f) >= 3 {
				res[f[1]] = f[2]
				if f[2] == "panic" && strings.Contains(l, "VERIF-OVERFLOW") {
					res[f[1]] = "overflow"
					res[f[1]+"#detail"] = strings.Join(f[3:], " ")
				}
			}
		}
	}
	for _, tc := range tests {
		if _, ok := res[tc.Name]; !ok {
			res[tc.Name] = "error"
		}
	}
	return res, text
}

func cleanPath() string {
	var ps []string
	for _, p := range strings.Split(os.Getenv("PATH"), ":") {
		if strings.Contains(p, "go1.26.8") {
			continue
		}
		ps = append(ps, p)
	}
	return strings.Join(ps, ":")
}

// buildReplay creates the overlay test for a failed obligation with a model.
func buildReplay(w *World, vc *VC, prelude, dir string, testName string) (*overlayTest, []replayArg, string) {
	fv := vc.fv
	fd := fv.fd
	q := &modelQuery{w: w, vc: vc, prelude: prelude, dir: dir, cache: map[string]*sx{}, solver: strings.Fields(vc.Solver + " x")[0]}
	w.smt.tsubst = nil
	info := w.prog.Info
	var args []replayArg
	var callArgs []string
	recv := ""
	collect := func(fl *ast.FieldList, isRecv bool) bool {
		if fl == nil {
			return true
		}
		for _, f := range fl.List {
			for _, n := range f.Names {
				o := info.Defs[n]
				if o == nil {
					return false
				}
				ev, ok := fv.entry.vars[o]
				if !ok {
					return false
				}
				lit, ok := q.goLiteral(ev.T, o.Type())
				if !ok {
					return false
				}
				args = append(args, replayArg{Name: n.Name, Go: lit})
				if isRecv {
					recv = n.Name
				} else {
					callArgs = append(callArgs, "a_"+n.Name)
				}
			}
		}
		return true
	}
	if fd.Type.TypeParams != nil {
		return nil, nil, "generic function: replay not generated"
	}
	if !collect(fd.Recv, true) || !collect(fd.Type.Params, false) {
		return nil, args, "model values could not be rendered as Go inputs (heap references, out-of-range or too large values)"
	}
	var b strings.Builder
	for _, h := range q.heapPre {
		fmt.Fprintf(&b, "\t\t%s\n", h)
	}
	for name := range q.refVar {
		_ = name
	}
	for _, h := range q.refVar {
		fmt.Fprintf(&b, "\t\t_ = %s\n", h)
	}
	for _, a := range args {
		fmt.Fprintf(&b, "\t\ta_%s := %s\n", a.Name, a.Go)
	}
	heapArgs := len(q.refVar) > 0
	call := fd.Name.Name + "(" + strings.Join(callArgs, ", ") + ")"
	if recv != "" {
		call = "a_" + recv + "." + call
	}
	nres := 0
	if fd.Type.Results != nil {
		nres = fd.Type.Results.NumFields()
	}
	var resNames []string
	for i := 0; i < nres; i++ {
		resNames = append(resNames, fmt.Sprintf("r%d", i))
	}
	// keep copies of the inputs: parameters in ensures denote entry values
	if strings.HasPrefix(vc.Kind, "safe.") || strings.HasPrefix(vc.Kind, "call@") || strings.HasPrefix(vc.Kind, "panics") {
		if nres > 0 {
			fmt.Fprintf(&b, "\t\t%s := %s\n", strings.Join(resNames, ", "), call)
			for _, r := range resNames {
				fmt.Fprintf(&b, "\t\t_ = %s\n", r)
			}
		} else {
			fmt.Fprintf(&b, "\t\t%s\n", call)
		}
		fmt.Fprintf(&b, "\t\tfmt.Printf(\"VERIF-RESULT %s pass returned-normally\\n\")\n", testName)
		return &overlayTest{Name: testName, Body: b.String()}, args, ""
	}
	if !strings.HasPrefix(vc.Kind, "ensures") && !strings.HasPrefix(vc.Kind, "expect") {
		return nil, args, "no replay form for obligation kind " + vc.Kind
	}
	if heapArgs && strings.Contains(vc.ClauseText, "old(") {
		// the executable clause reads the heap after the call; old() over heap objects cannot be evaluated
		return nil, args, "clause refers to the pre-call heap (old): the rebuilt input is recorded, the clause is not re-evaluated"
	}
	// find the clause function
	var cl *Clause
	for _, c := range fv.fc.Ensures {
		if c.Text == vc.ClauseText {
			cl = c
		}
	}
	if cl == nil {
		return nil, args, "clause not found"
	}
	if nres > 0 {
		fmt.Fprintf(&b, "\t\t%s := %s\n", strings.Join(resNames, ", "), call)
	} else {
		fmt.Fprintf(&b, "\t\t%s\n", call)
	}
	// clause arguments by name
	cfd := w.prog.ClauseFn[cl.ID]
	var cargs []string
	ri := 0
	resByName := map[string]string{}
	if fd.Type.Results != nil {
		i := 0
		for _, f := range fd.Type.Results.List {
			k := len(f.Names)
			if k == 0 {
				k = 1
			}
			for j := 0; j < k; j++ {
				nm := "result"
				if nres > 1 {
					nm = fmt.Sprintf("result%d", i)
				}
				resByName[nm] = resNames[i]
				if len(f.Names) > 0 {
					resByName[f.Names[j].Name] = resNames[i]
				}
				i++
			}
		}
	}
	_ = ri
	for _, f := range cfd.Type.Params.List {
		for _, n := range f.Names {
			if r, ok := resByName[n.Name]; ok {
				cargs = append(cargs, r)
			} else {
				cargs = append(cargs, "a_"+n.Name)
			}
		}
	}
	fmt.Fprintf(&b, "\t\tif %s(%s) {\n\t\t\tfmt.Printf(\"VERIF-RESULT %s pass clause-holds\\n\")\n\t\t} else {\n\t\t\tfmt.Printf(\"VERIF-RESULT %s fail clause-violated\\n\")\n\t\t}\n", cl.FnName, strings.Join(cargs, ", "), testName, testName)
	return &overlayTest{Name: testName, Body: b.String()}, args, ""
}
