package main

import (
	"bytes"
	"fmt"
	"go/ast"
	"go/parser"
	"go/printer"
	"go/token"
	"go/types"
	"os"
	"path/filepath"
	"sort"
	"strings"

	"golang.org/x/tools/go/packages"
)

// Program is the loaded /repo package plus contracts, type-checked together with the
// synthesized specification file (spec functions and one Go function per clause).
type Program struct {
	Fset      *token.FileSet
	Pkg       *types.Package
	Info      *types.Info
	Files     []*ast.File
	SynthFile *ast.File
	SynthSrc  string
	C         *Contracts
	Funcs     map[string]*ast.FuncDecl // key: Func or Recv.Method
	FuncObj   map[*types.Func]string   // object -> key
	ClauseFn  map[int]*ast.FuncDecl    // clause id -> synthesized function
	SpecFn    map[string]*ast.FuncDecl
	RepoDir   string
	FileOf    map[string]string // func key -> file base name
	LoadErrs  []string
	Detached  map[string]string // contract key -> reason it no longer attaches to the source
	clauseOwner map[int]string
}

const specBuiltins = `
func old[T any](x T) T { return x }
func implies(a, b bool) bool { return !a || b }
func iff(a, b bool) bool { return a == b }
func ite[T any](c bool, a, b T) T { if c { return a }; return b }
func __forall(lo, hi int, f func(int) bool) bool { for i := lo; i < hi; i++ { if !f(i) { return false } }; return true }
func __exists(lo, hi int, f func(int) bool) bool { for i := lo; i < hi; i++ { if f(i) { return true } }; return false }
func __forallInt(f func(int64) bool) bool { return true }
func __forallRef[T any](f func(*T) bool) bool { return true }
func toReal[T constraints.Integer | constraints.Float](x T) float64 { return float64(x) }
func toInt[T constraints.Integer | constraints.Float](x T) int64 { return int64(x) }
func absI[T constraints.Signed | constraints.Float](x T) T { if x < 0 { return -x }; return x }
func pow2(k int) int64 { return int64(1) << uint(k) }
func upow2(k int) uint64 { return uint64(1) << uint(k) }
func wrap64(x int64) int64 { return x }
func mulU128(a, b uint64) uint64 { return a * b }
func mathInt(x uint64) int64 { return int64(x) }
func isnil[T any](s []T) bool { return s == nil }
func same[T any](a, b T) bool { return reflect.DeepEqual(a, b) }
func fresh[T any](p *T) bool { return p != nil }
func allocated[T any](p *T) bool { return p != nil }
func isIntegral(x float64) bool { return x == math.Trunc(x) }
func quant(x float64) int64 { return int64(math.RoundToEven(x)) }
func pow10(p int) float64 { return math.Pow(10, float64(p)) }
func truncF(x float64) int64 { return int64(x) }
`

func funcKey(fd *ast.FuncDecl) string {
	if fd.Recv != nil && len(fd.Recv.List) > 0 {
		t := fd.Recv.List[0].Type
		for {
			switch x := t.(type) {
			case *ast.StarExpr:
				t = x.X
				continue
			case *ast.IndexExpr:
				t = x.X
				continue
			case *ast.ParenExpr:
				t = x.X
				continue
			}
			break
		}
		if id, ok := t.(*ast.Ident); ok {
			return id.Name + "." + fd.Name.Name
		}
	}
	return fd.Name.Name
}

func LoadProgram(repo string) (*Program, error) {
	cfg := &packages.Config{
		Mode:       packages.NeedName | packages.NeedFiles | packages.NeedCompiledGoFiles | packages.NeedImports | packages.NeedDeps | packages.NeedTypes | packages.NeedSyntax | packages.NeedTypesInfo | packages.NeedTypesSizes,
		Dir:        repo,
		BuildFlags: []string{"-tags=verif"},
	}
	pkgs, err := packages.Load(cfg, ".")
	if err != nil {
		return nil, err
	}
	if len(pkgs) != 1 {
		return nil, fmt.Errorf("expected one package, got %d", len(pkgs))
	}
	p0 := pkgs[0]
	if len(p0.Errors) > 0 {
		return nil, fmt.Errorf("package errors: %v", p0.Errors)
	}
	prog := &Program{Fset: p0.Fset, RepoDir: repo, Funcs: map[string]*ast.FuncDecl{}, FuncObj: map[*types.Func]string{},
		ClauseFn: map[int]*ast.FuncDecl{}, SpecFn: map[string]*ast.FuncDecl{}, FileOf: map[string]string{}}
	cpath := filepath.Join(repo, "contracts_verif.go")
	if _, err := os.Stat(cpath); err == nil {
		prog.C, err = ParseContracts(cpath)
		if err != nil {
			return nil, err
		}
	} else {
		prog.C = &Contracts{ByKey: map[string]*FuncContract{}}
	}
	for _, f := range p0.Syntax {
		name := filepath.Base(p0.Fset.File(f.Pos()).Name())
		for _, d := range f.Decls {
			if fd, ok := d.(*ast.FuncDecl); ok && fd.Body != nil {
				k := funcKey(fd)
				prog.Funcs[k] = fd
				prog.FileOf[k] = name
			}
		}
	}
	// pass 1 info (p0.TypesInfo) is used to find the locals named by loop clauses.
	// A contract whose clauses no longer type-check against the current source (a local it names
	// was renamed or changed type) is DETACHED: its obligations are reported as failed for the
	// properties it serves, and the other contracts are still checked.
	prog.Detached = map[string]string{}
	var pkg *types.Package
	var info *types.Info
	var sf *ast.File
	for round := 0; ; round++ {
		synth, err := prog.genSynth(p0)
		if err != nil {
			return nil, err
		}
		prog.SynthSrc = synth
		fname := fmt.Sprintf(outRoot+"/__spec_verif_%d.go", round)
		sf, err = parser.ParseFile(p0.Fset, fname, synth, parser.ParseComments)
		if err != nil {
			os.WriteFile(outRoot+"/__spec_verif.go", []byte(synth), 0o644)
			return nil, fmt.Errorf("synthesized spec file does not parse: %v", err)
		}
		imp := importerFromPkgs{p0.Imports}
		info = &types.Info{
			Types:      map[ast.Expr]types.TypeAndValue{},
			Defs:       map[*ast.Ident]types.Object{},
			Uses:       map[*ast.Ident]types.Object{},
			Selections: map[*ast.SelectorExpr]*types.Selection{},
			Scopes:     map[ast.Node]*types.Scope{},
			Instances:  map[*ast.Ident]types.Instance{},
			Implicits:  map[ast.Node]types.Object{},
		}
		var terrs []types.Error
		tc := &types.Config{Importer: imp, Sizes: p0.TypesSizes, Error: func(err error) {
			if te, ok := err.(types.Error); ok {
				if strings.Contains(te.Msg, "imported and not used") {
					return
				}
				terrs = append(terrs, te)
			}
		}}
		files := append([]*ast.File{}, p0.Syntax...)
		files = append(files, sf)
		pkg, _ = tc.Check(p0.PkgPath, p0.Fset, files, info)
		if len(terrs) == 0 {
			break
		}
		// attribute every error to the contract that owns the enclosing clause function
		progress := false
		var fatal []string
		for _, te := range terrs {
			pos := p0.Fset.Position(te.Pos)
			owner := ""
			if pos.Filename == fname {
				for _, d := range sf.Decls {
					fd, ok := d.(*ast.FuncDecl)
					if !ok || !strings.HasPrefix(fd.Name.Name, "__c_") {
						continue
					}
					if te.Pos >= fd.Pos() && te.Pos <= fd.End() {
						var id int
						fmt.Sscanf(fd.Name.Name, "__c_%d", &id)
						owner = prog.clauseOwner[id]
					}
				}
			}
			if owner == "" {
				fatal = append(fatal, fmt.Sprintf("%s: %s", pos, te.Msg))
				continue
			}
			if _, seen := prog.Detached[owner]; !seen {
				prog.Detached[owner] = te.Msg
				progress = true
			}
		}
		if len(fatal) > 0 || !progress || round > 6 {
			os.WriteFile(outRoot+"/__spec_verif.go", []byte(synth), 0o644)
			var msgs []string
			for _, te := range terrs {
				msgs = append(msgs, fmt.Sprintf("%s: %s", p0.Fset.Position(te.Pos), te.Msg))
			}
			return nil, fmt.Errorf("contract type errors (spec file dumped to /verif/out/__spec_verif.go):\n  %s", strings.Join(msgs, "\n  "))
		}
	}
	prog.SynthFile = sf
	prog.Pkg = pkg
	prog.Info = info
	prog.Files = p0.Syntax
	for k, fd := range prog.Funcs {
		if obj, ok := info.Defs[fd.Name].(*types.Func); ok {
			prog.FuncObj[obj] = k
		}
	}
	for _, d := range sf.Decls {
		if fd, ok := d.(*ast.FuncDecl); ok {
			if strings.HasPrefix(fd.Name.Name, "__c_") {
				var id int
				fmt.Sscanf(fd.Name.Name, "__c_%d", &id)
				prog.ClauseFn[id] = fd
			} else {
				prog.SpecFn[fd.Name.Name] = fd
				if obj, ok := info.Defs[fd.Name].(*types.Func); ok {
					prog.FuncObj[obj] = "spec:" + fd.Name.Name
				}
			}
		}
	}
	return prog, nil
}

type importerFromPkgs struct{ m map[string]*packages.Package }

func (i importerFromPkgs) Import(path string) (*types.Package, error) {
	if p, ok := i.m[path]; ok {
		return p.Types, nil
	}
	// search transitively
	var found *types.Package
	seen := map[*packages.Package]bool{}
	var walk func(p *packages.Package)
	walk = func(p *packages.Package) {
		if seen[p] || found != nil {
			return
		}
		seen[p] = true
		for k, q := range p.Imports {
			if k == path {
				found = q.Types
				return
			}
			walk(q)
		}
	}
	for _, p := range i.m {
		walk(p)
	}
	if found != nil {
		return found, nil
	}
	return nil, fmt.Errorf("import %q not available offline", path)
}

func exprString(fset *token.FileSet, e ast.Node) string {
	var b bytes.Buffer
	printer.Fprint(&b, fset, e)
	return b.String()
}

// rewriteQuant turns forall(i, lo, hi, P) into __forall(lo, hi, func(i int) bool { return P }).
func rewriteQuant(e ast.Expr) ast.Expr {
	var rw func(n ast.Expr) ast.Expr
	rw = func(n ast.Expr) ast.Expr {
		switch x := n.(type) {
		case *ast.CallExpr:
			for i := range x.Args {
				x.Args[i] = rw(x.Args[i])
			}
			if id, ok := x.Fun.(*ast.Ident); ok && (id.Name == "forall" || id.Name == "exists") && len(x.Args) == 4 {
				if v, ok := x.Args[0].(*ast.Ident); ok {
					fl := &ast.FuncLit{
						Type: &ast.FuncType{
							Params:  &ast.FieldList{List: []*ast.Field{{Names: []*ast.Ident{ast.NewIdent(v.Name)}, Type: ast.NewIdent("int")}}},
							Results: &ast.FieldList{List: []*ast.Field{{Type: ast.NewIdent("bool")}}},
						},
						Body: &ast.BlockStmt{List: []ast.Stmt{&ast.ReturnStmt{Results: []ast.Expr{x.Args[3]}}}},
					}
					return &ast.CallExpr{Fun: ast.NewIdent("__" + id.Name), Args: []ast.Expr{x.Args[1], x.Args[2], fl}}
				}
			}
			if id, ok := x.Fun.(*ast.Ident); ok && id.Name == "forallp" && len(x.Args) == 3 {
				if v, ok := x.Args[0].(*ast.Ident); ok {
					fl := &ast.FuncLit{
						Type: &ast.FuncType{
							Params:  &ast.FieldList{List: []*ast.Field{{Names: []*ast.Ident{ast.NewIdent(v.Name)}, Type: &ast.StarExpr{X: x.Args[1]}}}},
							Results: &ast.FieldList{List: []*ast.Field{{Type: ast.NewIdent("bool")}}},
						},
						Body: &ast.BlockStmt{List: []ast.Stmt{&ast.ReturnStmt{Results: []ast.Expr{x.Args[2]}}}},
					}
					return &ast.CallExpr{Fun: ast.NewIdent("__forallRef"), Args: []ast.Expr{fl}}
				}
			}
			if id, ok := x.Fun.(*ast.Ident); ok && id.Name == "forallInt" && len(x.Args) == 2 {
				if v, ok := x.Args[0].(*ast.Ident); ok {
					fl := &ast.FuncLit{
						Type: &ast.FuncType{
							Params:  &ast.FieldList{List: []*ast.Field{{Names: []*ast.Ident{ast.NewIdent(v.Name)}, Type: ast.NewIdent("int64")}}},
							Results: &ast.FieldList{List: []*ast.Field{{Type: ast.NewIdent("bool")}}},
						},
						Body: &ast.BlockStmt{List: []ast.Stmt{&ast.ReturnStmt{Results: []ast.Expr{x.Args[1]}}}},
					}
					return &ast.CallExpr{Fun: ast.NewIdent("__forallInt"), Args: []ast.Expr{fl}}
				}
			}
			return x
		case *ast.BinaryExpr:
			x.X = rw(x.X)
			x.Y = rw(x.Y)
		case *ast.UnaryExpr:
			x.X = rw(x.X)
		case *ast.ParenExpr:
			x.X = rw(x.X)
		case *ast.IndexExpr:
			x.X = rw(x.X)
			x.Index = rw(x.Index)
		case *ast.SelectorExpr:
			x.X = rw(x.X)
		case *ast.SliceExpr:
			x.X = rw(x.X)
			if x.Low != nil {
				x.Low = rw(x.Low)
			}
			if x.High != nil {
				x.High = rw(x.High)
			}
		case *ast.StarExpr:
			x.X = rw(x.X)
		case *ast.CompositeLit:
			for i := range x.Elts {
				x.Elts[i] = rw(x.Elts[i])
			}
		case *ast.KeyValueExpr:
			x.Value = rw(x.Value)
		}
		return n
	}
	return rw(e)
}

// convImplies rewrites the infix operator  A ==> B  (lowest precedence, right
// associative) into implies(A, B), recursively inside brackets and argument lists.
func convImplies(s string) string {
	// split at top-level commas
	depth := 0
	var parts []string
	last := 0
	for i := 0; i < len(s); i++ {
		switch s[i] {
		case '(', '[', '{':
			depth++
		case ')', ']', '}':
			depth--
		case ',':
			if depth == 0 {
				parts = append(parts, s[last:i])
				last = i + 1
			}
		}
	}
	parts = append(parts, s[last:])
	if len(parts) > 1 {
		for i := range parts {
			parts[i] = convImplies(parts[i])
		}
		return strings.Join(parts, ",")
	}
	depth = 0
	for i := 0; i+2 < len(s); i++ {
		switch s[i] {
		case '(', '[', '{':
			depth++
		case ')', ']', '}':
			depth--
		}
		if depth == 0 && s[i] == '=' && s[i+1] == '=' && s[i+2] == '>' {
			return "implies(" + convImplies(s[:i]) + ", " + convImplies(s[i+3:]) + ")"
		}
	}
	// recurse into bracket groups
	var b strings.Builder
	for i := 0; i < len(s); i++ {
		c := s[i]
		if c == '(' || c == '[' || c == '{' {
			d := 1
			j := i + 1
			for ; j < len(s) && d > 0; j++ {
				switch s[j] {
				case '(', '[', '{':
					d++
				case ')', ']', '}':
					d--
				}
			}
			b.WriteByte(c)
			b.WriteString(convImplies(s[i+1 : j-1]))
			b.WriteByte(s[j-1])
			i = j - 1
			continue
		}
		b.WriteByte(c)
	}
	return b.String()
}

func parseSpecExpr(text string) (string, ast.Expr, error) {
	text = convImplies(text)
	e, err := parser.ParseExpr(text)
	if err != nil {
		return "", nil, err
	}
	e = rewriteQuant(e)
	return exprString(token.NewFileSet(), e), e, nil
}

func freeIdents(e ast.Expr) []string {
	seen := map[string]bool{}
	bound := map[string]int{}
	var out []string
	var walk func(n ast.Node)
	walk = func(n ast.Node) {
		switch x := n.(type) {
		case nil:
			return
		case *ast.Ident:
			if bound[x.Name] == 0 && !seen[x.Name] {
				seen[x.Name] = true
				out = append(out, x.Name)
			}
		case *ast.SelectorExpr:
			walk(x.X)
		case *ast.KeyValueExpr:
			walk(x.Value)
		case *ast.FuncLit:
			for _, f := range x.Type.Params.List {
				for _, nm := range f.Names {
					bound[nm.Name]++
				}
			}
			walk(x.Body)
			for _, f := range x.Type.Params.List {
				for _, nm := range f.Names {
					bound[nm.Name]--
				}
			}
		default:
			ast.Inspect(n, func(m ast.Node) bool {
				if m == n || m == nil {
					return true
				}
				switch m.(type) {
				case *ast.Ident, *ast.SelectorExpr, *ast.KeyValueExpr, *ast.FuncLit:
					walk(m)
					return false
				}
				return true
			})
		}
	}
	walk(e)
	return out
}

// loopsOf returns the loops of a function body keyed by path ("0", "1", "0.0", ...)
func loopsOf(body *ast.BlockStmt) map[string]ast.Stmt {
	out := map[string]ast.Stmt{}
	var walk func(n ast.Node, prefix string)
	walk = func(n ast.Node, prefix string) {
		idx := 0
		ast.Inspect(n, func(m ast.Node) bool {
			if m == nil || m == n {
				return true
			}
			switch x := m.(type) {
			case *ast.FuncLit:
				return false
			case *ast.ForStmt:
				p := fmt.Sprintf("%s%d", prefix, idx)
				idx++
				out[p] = x
				walk(x.Body, p+".")
				return false
			case *ast.RangeStmt:
				p := fmt.Sprintf("%s%d", prefix, idx)
				idx++
				out[p] = x
				walk(x.Body, p+".")
				return false
			}
			return true
		})
	}
	walk(body, "")
	return out
}

// assignStmtOf finds the occ-th statement (source order) that assigns or declares name.
func assignStmtOf(body *ast.BlockStmt, name string, occ int) ast.Stmt {
	var found ast.Stmt
	n := 0
	skipInit := map[ast.Stmt]bool{}
	ast.Inspect(body, func(m ast.Node) bool {
		if found != nil {
			return false
		}
		hit := false
		if name == "return" {
			// anchor on the occ-th return statement of the function (the clause is checked just before it executes)
			switch x := m.(type) {
			case *ast.FuncLit:
				return false
			case *ast.ReturnStmt:
				if n == occ {
					found = x
				}
				n++
			}
			return true
		}
		if name == "break" {
			// anchor on the occ-th break statement of the function (the clause is checked just before it executes)
			switch x := m.(type) {
			case *ast.FuncLit:
				return false
			case *ast.BranchStmt:
				if x.Tok == token.BREAK {
					if n == occ {
						found = x
					}
					n++
				}
			}
			return true
		}
		if strings.HasPrefix(name, "call:") {
			// anchor on the occ-th statement that is (or assigns the result of) a call of the named function
			var call *ast.CallExpr
			var stmt ast.Stmt
			if st, ok := m.(ast.Stmt); ok && skipInit[st] {
				// the init statement of an `if`: counted with the if statement
				return true
			}
			if ifs, ok := m.(*ast.IfStmt); ok && ifs.Init != nil {
				skipInit[ifs.Init] = true
			}
			switch x := m.(type) {
			case *ast.FuncLit:
				return false
			case *ast.ExprStmt:
				call, _ = x.X.(*ast.CallExpr)
				stmt = x
			case *ast.AssignStmt:
				if len(x.Rhs) == 1 {
					call, _ = x.Rhs[0].(*ast.CallExpr)
					stmt = x
				}
			case *ast.IfStmt:
				// `if f(...) { ... }`: anchored after the whole if statement (the paths that fall through it)
				call, _ = ast.Unparen(x.Cond).(*ast.CallExpr)
				if u, ok := ast.Unparen(x.Cond).(*ast.UnaryExpr); ok && u.Op == token.NOT {
					call, _ = ast.Unparen(u.X).(*ast.CallExpr)
				}
				stmt = x
			}
			if call != nil {
				fn := ""
				switch f := ast.Unparen(call.Fun).(type) {
				case *ast.Ident:
					fn = f.Name
				case *ast.SelectorExpr:
					fn = f.Sel.Name
				}
				want := name[5:]
				if i := strings.LastIndex(want, "."); i >= 0 {
					want = want[i+1:]
				}
				if fn == want {
					if n == occ {
						found = stmt
					}
					n++
					return true
				}
			}
			// a call nested in the statement's expression (`x = append(x, f(a, b))`): same anchoring
			if stmt != nil {
				if nestedCallNamed(stmt, callAnchorName(name)) != nil {
					if n == occ {
						found = stmt
					}
					n++
				}
			}
			return true
		}
		switch x := m.(type) {
		case *ast.FuncLit:
			return false
		case *ast.AssignStmt:
			for _, l := range x.Lhs {
				if id, ok := l.(*ast.Ident); ok && id.Name == name {
					hit = true
				} else if !ok && types.ExprString(l) == name {
					hit = true
				}
			}
			if hit {
				if n == occ {
					found = x
				}
				n++
			}
		case *ast.DeclStmt:
			if gd, ok := x.Decl.(*ast.GenDecl); ok {
				for _, sp := range gd.Specs {
					if vs, ok := sp.(*ast.ValueSpec); ok {
						for _, id := range vs.Names {
							if id.Name == name {
								hit = true
							}
						}
					}
				}
			}
			if hit {
				if n == occ {
					found = x
				}
				n++
			}
		case *ast.IncDecStmt:
			if id, ok := x.X.(*ast.Ident); ok && id.Name == name {
				if n == occ {
					found = x
				}
				n++
			}
		}
		return true
	})
	return found
}

func fieldListString(fset *token.FileSet, fl *ast.FieldList, unnamedPrefix string, counter *int) []string {
	var out []string
	if fl == nil {
		return out
	}
	for _, f := range fl.List {
		ts := exprString(fset, f.Type)
		if strings.HasPrefix(ts, "...") {
			ts = "[]" + ts[3:]
		}
		if len(f.Names) == 0 {
			out = append(out, fmt.Sprintf("%s%d %s", unnamedPrefix, *counter, ts))
			*counter++
			continue
		}
		for _, n := range f.Names {
			nm := n.Name
			if nm == "_" {
				nm = fmt.Sprintf("%s%d", unnamedPrefix, *counter)
			}
			*counter++
			out = append(out, nm+" "+ts)
		}
	}
	return out
}

// clauseSignature builds the parameter list of the synthesized clause function.
func (prog *Program) clauseSignature(p0 *packages.Package, fd *ast.FuncDecl, withResults bool) (tparams string, params []string, resultNames []string) {
	fset := prog.Fset
	if fd.Type.TypeParams != nil {
		var tp []string
		for _, f := range fd.Type.TypeParams.List {
			var ns []string
			for _, n := range f.Names {
				ns = append(ns, n.Name)
			}
			tp = append(tp, strings.Join(ns, ", ")+" "+exprString(fset, f.Type))
		}
		tparams = "[" + strings.Join(tp, ", ") + "]"
	}
	cnt := 0
	if fd.Recv != nil {
		params = append(params, fieldListString(fset, fd.Recv, "_recv", &cnt)...)
	}
	cnt = 0
	params = append(params, fieldListString(fset, fd.Type.Params, "_p", &cnt)...)
	if withResults && fd.Type.Results != nil {
		n := fd.Type.Results.NumFields()
		i := 0
		for _, f := range fd.Type.Results.List {
			ts := exprString(fset, f.Type)
			k := len(f.Names)
			if k == 0 {
				k = 1
			}
			for j := 0; j < k; j++ {
				nm := "result"
				if n > 1 {
					nm = fmt.Sprintf("result%d", i)
				}
				params = append(params, nm+" "+ts)
				resultNames = append(resultNames, nm)
				if len(f.Names) > 0 && f.Names[j].Name != "_" {
					params = append(params, f.Names[j].Name+" "+ts)
				}
				i++
			}
		}
	}
	return
}

func (prog *Program) genSynth(p0 *packages.Package) (string, error) {
	var b strings.Builder
	b.WriteString("//go:build verif\n\npackage " + p0.Name + "\n\nimport (\n\t\"math\"\n\t\"reflect\"\n\t\"golang.org/x/exp/constraints\"\n)\n\nvar _ = math.Abs\n")
	b.WriteString(specBuiltins)
	for _, sf := range prog.C.Specs {
		if sf.Opaque {
			fmt.Fprintf(&b, "\nfunc %s(%s) %s { panic(\"opaque spec function\") }\n", sf.Name, sf.Params, sf.Ret)
			continue
		}
		txt, _, err := parseSpecExpr(sf.Body)
		if err != nil {
			return "", fmt.Errorf("contracts:%d: spec %s: %v", sf.Line, sf.Name, err)
		}
		fmt.Fprintf(&b, "\nfunc %s(%s) %s { return %s }\n", sf.Name, sf.Params, sf.Ret, txt)
	}
	for _, cl := range append(append([]*Clause{}, prog.C.Axioms...), prog.C.Lemmas...) {
		txt, _, err := parseSpecExpr(cl.Text)
		if err != nil {
			return "", fmt.Errorf("contracts:%d: %s %s: %v", cl.Line, cl.Kind, cl.Label, err)
		}
		fmt.Fprintf(&b, "\nfunc %s() bool { return %s }\n", cl.FnName, txt)
	}
	qual := func(p *types.Package) string {
		if p == p0.Types {
			return ""
		}
		return p.Name()
	}
	prog.clauseOwner = map[int]string{}
	for _, fc := range prog.C.Funcs {
		fd := prog.Funcs[fc.Name]
		if fd == nil {
			if prog.Detached != nil {
				prog.Detached[fc.Key()] = "no function " + fc.Name + " in the package any more"
				continue
			}
			return "", fmt.Errorf("contracts:%d: no function %q in package", fc.Line, fc.Name)
		}
		if _, det := prog.Detached[fc.Key()]; det {
			continue
		}
		var fb strings.Builder
		ferr := func() error {
		loops := loopsOf(fd.Body)
		var callArgParams []string
		emit := func(cl *Clause, withResults bool, loopPath string, retType string, at ...token.Pos) error {
			prog.clauseOwner[cl.ID] = fc.Key()
			txt, e, err := parseSpecExpr(cl.Text)
			if err != nil {
				return fmt.Errorf("contracts:%d: %s %s: %v", cl.Line, fc.Name, cl.Kind, err)
			}
			tparams, params, _ := prog.clauseSignature(p0, fd, withResults)
			have := map[string]bool{}
			for _, p := range params {
				have[strings.Fields(p)[0]] = true
			}
			for _, ap := range callArgParams {
				nm := strings.Fields(ap)[0]
				if have[nm] {
					continue
				}
				for _, fi := range freeIdents(e) {
					if fi == nm {
						params = append(params, ap)
						have[nm] = true
					}
				}
			}
			if withResults && !have["returnIndex"] {
				// returnIndex: which return statement (source order, as in `assert after return#k`) this exit is; the
				// closing brace of a function without results counts as one more
				for _, fi := range freeIdents(e) {
					if fi == "returnIndex" && !have[fi] {
						params = append(params, "returnIndex int")
						have[fi] = true
					}
				}
			}
			if len(at) > 0 {
				pos := at[0]
				scope := p0.Types.Scope().Innermost(pos)
				for _, name := range freeIdents(e) {
					if have[name] || scope == nil {
						continue
					}
					_, obj := scope.LookupParent(name, pos)
					if v, ok := obj.(*types.Var); ok && v.Parent() != p0.Types.Scope() && v.Parent() != types.Universe {
						params = append(params, name+" "+types.TypeString(v.Type(), qual))
						have[name] = true
					}
				}
			}
			if loopPath != "" {
				lp := loops[loopPath]
				if lp == nil {
					return fmt.Errorf("contracts:%d: %s has no loop %s", cl.Line, fc.Name, loopPath)
				}
				var pos token.Pos
				switch x := lp.(type) {
				case *ast.ForStmt:
					pos = x.Body.Lbrace + 1
					if cl.Kind == "step" {
						pos = x.Body.Rbrace
					}
				case *ast.RangeStmt:
					pos = x.Body.Lbrace + 1
					if cl.Kind == "step" {
						pos = x.Body.Rbrace
					}
					if !have["_i"] {
						params = append(params, "_i int")
						have["_i"] = true
					}
				}
				scope := p0.Types.Scope().Innermost(pos)
				for _, name := range freeIdents(e) {
					if have[name] {
						continue
					}
					if scope == nil {
						continue
					}
					_, obj := scope.LookupParent(name, pos)
					if v, ok := obj.(*types.Var); ok && v.Parent() != p0.Types.Scope() && v.Parent() != types.Universe {
						params = append(params, name+" "+types.TypeString(v.Type(), qual))
						have[name] = true
					}
				}
			}
			if retType == "int64" {
				txt = "toInt(" + txt + ")"
			}
			fmt.Fprintf(&fb, "\n// %s %s (contracts line %d)\nfunc %s%s(%s) %s { return %s }\n", fc.Key(), cl.Kind, cl.Line, cl.FnName, tparams, strings.Join(params, ", "), retType, txt)
			return nil
		}
		for _, cl := range append(append([]*Clause{}, fc.Requires...), fc.Assumes...) {
			if err := emit(cl, false, "", "bool"); err != nil {
				return err
			}
		}
		if fc.Panics != nil {
			if err := emit(fc.Panics, false, "", "bool"); err != nil {
				return err
			}
		}
		for _, cl := range fc.Ensures {
			if err := emit(cl, true, "", "bool"); err != nil {
				return err
			}
		}
		for _, ac := range fc.Asserts {
			stmt := assignStmtOf(fd.Body, ac.Var, ac.Occ)
			if stmt == nil {
				return fmt.Errorf("contracts:%d: %s: no assignment #%d to %s", ac.Cl.Line, fc.Name, ac.Occ, ac.Var)
			}
			callArgParams = nil
			if strings.HasPrefix(ac.Var, "call:") {
				// arg0, arg1, ...: the values passed at the anchored call (declared parameters of the callee)
				if call := callOfStmtNamed(stmt, ac.Var); call != nil {
					if sig, ok := p0.TypesInfo.TypeOf(call.Fun).(*types.Signature); ok {
						for i := 0; i < sig.Params().Len(); i++ {
							callArgParams = append(callArgParams, fmt.Sprintf("arg%d %s", i, types.TypeString(sig.Params().At(i).Type(), qual)))
						}
					}
				}
			}
			at := stmt.End()
			if _, isRet := stmt.(*ast.ReturnStmt); isRet {
				at = stmt.Pos()
			}
			if _, isBr := stmt.(*ast.BranchStmt); isBr {
				at = stmt.Pos()
			}
			if err := emit(ac.Cl, false, "", "bool", at); err != nil {
				return err
			}
			callArgParams = nil
		}
		var lps []string
		for k := range fc.Loops {
			lps = append(lps, k)
		}
		sort.Strings(lps)
		for _, k := range lps {
			lc := fc.Loops[k]
			for _, cl := range append(append(append([]*Clause{}, lc.Invariants...), lc.Steps...), lc.Entries...) {
				if err := emit(cl, false, k, "bool"); err != nil {
					return err
				}
			}
			if lc.Decreases != nil {
				if err := emit(lc.Decreases, false, k, "int64"); err != nil {
					return err
				}
			}
		}
	
			return nil
		}()
		if ferr != nil {
			if prog.Detached != nil {
				prog.Detached[fc.Key()] = ferr.Error()
				continue
			}
			return "", ferr
		}
		b.WriteString(fb.String())
	}
	return b.String(), nil
}

// callAnchorName: "call:recv.Name" -> "Name"
func callAnchorName(anchor string) string {
	want := strings.TrimPrefix(anchor, "call:")
	if i := strings.LastIndex(want, "."); i >= 0 {
		want = want[i+1:]
	}
	return want
}

func callName(call *ast.CallExpr) string {
	switch f := ast.Unparen(call.Fun).(type) {
	case *ast.Ident:
		return f.Name
	case *ast.SelectorExpr:
		return f.Sel.Name
	}
	return ""
}

// nestedCallNamed: the first call of the named function anywhere in the statement's own expressions (not in
// function literals, not in nested blocks)
func nestedCallNamed(s ast.Stmt, want string) *ast.CallExpr {
	var exprs []ast.Expr
	switch x := s.(type) {
	case *ast.ExprStmt:
		exprs = []ast.Expr{x.X}
	case *ast.AssignStmt:
		exprs = x.Rhs
	case *ast.IfStmt:
		// a call inside a compound condition: the assert is checked on the paths that fall through the if statement,
		// old(e) is the state in which the condition starts to be evaluated
		exprs = []ast.Expr{x.Cond}
		if as, ok := x.Init.(*ast.AssignStmt); ok {
			// `if v, ok := f(...); ok { ... }`
			exprs = append(exprs, as.Rhs...)
		}
	}
	var found *ast.CallExpr
	for _, e := range exprs {
		ast.Inspect(e, func(m ast.Node) bool {
			if found != nil {
				return false
			}
			switch y := m.(type) {
			case *ast.FuncLit:
				return false
			case *ast.CallExpr:
				if callName(y) == want {
					found = y
					return false
				}
			}
			return true
		})
	}
	return found
}

// callOfStmtNamed: the call a call-anchored assert refers to: the statement's own call when it has the anchored
// name, otherwise the first nested call with that name
func callOfStmtNamed(s ast.Stmt, anchor string) *ast.CallExpr {
	want := callAnchorName(anchor)
	if c := callOfStmt(s); c != nil && callName(c) == want {
		return c
	}
	if c := nestedCallNamed(s, want); c != nil {
		return c
	}
	return callOfStmt(s)
}

// callOfStmt: the call a call-anchored assert is attached to (expression statement, single assignment, if condition)
func callOfStmt(s ast.Stmt) *ast.CallExpr {
	switch x := s.(type) {
	case *ast.ExprStmt:
		c, _ := x.X.(*ast.CallExpr)
		return c
	case *ast.AssignStmt:
		if len(x.Rhs) == 1 {
			c, _ := x.Rhs[0].(*ast.CallExpr)
			return c
		}
	case *ast.IfStmt:
		if c, ok := ast.Unparen(x.Cond).(*ast.CallExpr); ok {
			return c
		}
		if u, ok := ast.Unparen(x.Cond).(*ast.UnaryExpr); ok && u.Op == token.NOT {
			c, _ := ast.Unparen(u.X).(*ast.CallExpr)
			return c
		}
	}
	return nil
}
