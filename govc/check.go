package main

import (
	"hash/crc32"
	"encoding/json"
	"fmt"
	"os"
	"path/filepath"
	"sort"
	"strconv"
	"strings"
	"time"
)

type KnownFinding struct {
	ID         string `json:"id"`
	Property   string `json:"property"`
	Status     string `json:"status"` // known | fixed
	Obligation string `json:"obligation"` // obligation name (prefix match up to '@')
	What       string `json:"what"`
	Witness    string `json:"witness"`
	Probe      string `json:"probe"` // Go statements; must print defect presence via `present = <bool>`
	Commit     string `json:"commit,omitempty"`
}

type KnownFile struct {
	Findings []KnownFinding `json:"findings"`
}

func loadKnown() *KnownFile {
	kf := &KnownFile{}
	path := "/verif/known_findings.json"
	if p := os.Getenv("VERIF_KNOWN"); p != "" {
		path = p // used by the self-test only
	}
	b, err := os.ReadFile(path)
	if err != nil {
		return kf
	}
	json.Unmarshal(b, kf)
	return kf
}

func hasProp(ps []string, p string) bool {
	for _, x := range ps {
		if x == p {
			return true
		}
	}
	return false
}

func obligationMatches(pattern, name string) bool {
	if pattern == name {
		return true
	}
	if strings.HasSuffix(pattern, "*") {
		return strings.HasPrefix(name, pattern[:len(pattern)-1])
	}
	return false
}

func cmdCheck(args []string) {
	if len(args) < 1 {
		fmt.Println("usage: govc check <property> [quick|thorough]")
		os.Exit(2)
	}
	prop := args[0]
	tier := "quick"
	if len(args) > 1 {
		tier = args[1]
	}
	if t := os.Getenv("VERIF_TIER"); t == "quick" || t == "thorough" {
		tier = t
	}
	seed := 0
	if s := os.Getenv("VERIF_SEED"); s != "" {
		if v, err := strconv.Atoi(s); err == nil {
			seed = v
		}
	}
	repo := "/repo"
	if r := os.Getenv("VERIF_REPO"); r != "" {
		repo = r
	}
	start := time.Now()
	outDir := filepath.Join(outRoot, prop)
	os.RemoveAll(outDir)
	os.MkdirAll(outDir, 0o755)
	replayDir := filepath.Join(outRoot, "replay", prop)
	os.RemoveAll(replayDir)
	os.MkdirAll(replayDir, 0o755)
	evDir := "/verif/evidence"
	if d := os.Getenv("VERIF_EVIDENCE_DIR"); d != "" {
		// scoring of seeded changes / self-tests: keep the registered evidence (unchanged tree) untouched
		evDir = d
		os.MkdirAll(d, 0o755)
	}
	evFile := filepath.Join(evDir, prop+".json")
	os.MkdirAll("/verif/evidence", 0o755)

	fail := func(msg string) {
		// machinery-level failure (cannot load / type errors in contracts): reported as a violation
		// without input, because the obligations cannot be regenerated from the current tree
		rp := filepath.Join(replayDir, "load-failure.json")
		b, _ := json.MarshalIndent(map[string]any{"property": prop, "obligation": "load", "reason": msg}, "", " ")
		os.WriteFile(rp, b, 0o644)
		fmt.Println(msg)
		fmt.Printf("VIOLATION property=%s replay=%s no-failing-input-found\n", prop, rp)
		writeEvidence(evFile, map[string]any{"property_id": prop, "tier": tier, "seed": seed, "level": "proof", "wall_s": time.Since(start).Seconds(), "violations": 1,
			"coverage": map[string]any{"obligations": 1, "discharged": 0, "checker_cmd": "govc check " + prop + " " + tier, "trusted_base": []string{}, "samples": []any{msg}, "explanation": "load failure"}})
		os.Exit(1)
	}
	w, err := loadWorld(repo)
	if err != nil {
		fail("LOAD ERROR: " + err.Error())
	}
	w.generate(func(fc *FuncContract) bool {
		if !hasProp(fc.Props, prop) {
			return false
		}
		if fc.Tier == "B" && tier != "thorough" {
			return false
		}
		return true
	})
	w.generateLemmas(func(props []string, t string) bool {
		return hasProp(props, prop) && (t != "B" || tier == "thorough")
	})
	rep := &Report{prop: prop, tier: tier, seed: seed, w: w, outDir: outDir, replayDir: replayDir, start: start}
	// obligations of this property
	for _, r := range w.res {
		for _, vc := range r.VCs {
			if hasProp(vc.Props, prop) {
				rep.vcs = append(rep.vcs, vc)
			}
		}
		rep.funcs = append(rep.funcs, r)
	}
	// frame obligations (no solver)
	rep.frame = frameObligations(w, prop)
	timeout := 20
	two := false
	if tier == "thorough" {
		timeout = 120
		two = true
	}
	prelude := w.smt.Prelude()
	rep.prelude = prelude
	altWorld = w
	solveAll(rep.vcs, prelude, filepath.Join(outDir, "smt"), timeout, seed, 16, two)
	if os.Getenv("VERIF_TIMING") != "" {
		for _, vc := range rep.vcs {
			if vc.TimeS > 1.5 {
				fmt.Printf("SLOW %.1fs %s %s %s\n", vc.TimeS, vc.Status, vc.Solver, vc.Name)
			}
		}
	}
	// bounded stand-ins
	rep.bounded = runBounded(w, prop, tier, seed, replayDir)
	code := rep.finish(evFile)
	os.Exit(code)
}

type Report struct {
	prop, tier string
	seed       int
	w          *World
	vcs        []*VC
	funcs      []*FuncResult
	frame      []*FrameOb
	bounded    []*BoundedResult
	outDir     string
	replayDir  string
	prelude    string
	start      time.Time
}

func writeEvidence(file string, ev map[string]any) {
	b, _ := json.MarshalIndent(ev, "", " ")
	os.WriteFile(file, b, 0o644)
}

func (rep *Report) finish(evFile string) int {
	w := rep.w
	known := loadKnown()
	var failed []*VC
	nObl, nDis := 0, 0
	covers, coversOK := 0, 0
	byBackend := map[string]int{}
	solverTime := 0.0
	var samples []any
	outsideFuncs := map[string][]string{}
	for _, r := range rep.funcs {
		if len(r.Outside) > 0 {
			outsideFuncs[r.Inst] = r.Outside
		}
	}
	for _, vc := range rep.vcs {
		solverTime += vc.TimeS
		if vc.MustFail {
			covers++
			if vc.Status != "unsat" && vc.Status != "error" {
				coversOK++
			} else {
				vc.Status = "vacuous"
				failed = append(failed, vc)
			}
			continue
		}
		nObl++
		if _, bad := outsideFuncs[vc.fv.instName]; bad {
			vc.Status = "outside-subset"
			failed = append(failed, vc)
			continue
		}
		if vc.Status == "unsat" {
			nDis++
			byBackend[strings.Fields(vc.Solver)[0]]++
			if len(samples) < 6 {
				samples = append(samples, map[string]any{"obligation": vc.Name, "at": vc.Pos, "clause": vc.ClauseText, "solver": vc.Solver, "time_s": round3(vc.TimeS)})
			}
		} else {
			failed = append(failed, vc)
		}
	}
	for _, fo := range rep.frame {
		nObl++
		if fo.OK {
			nDis++
			byBackend["frame-checker"]++
			if len(samples) < 8 && fo.Sample {
				samples = append(samples, map[string]any{"obligation": fo.Name, "detail": fo.Detail, "solver": "frame-checker"})
			}
		}
	}
	// classify failures: known findings vs violations
	violations := 0
	var knownLines []string
	var knownHit []map[string]any
	type pending struct {
		vc   *VC
		kf   *KnownFinding
		test *overlayTest
		args []replayArg
		note string
	}
	var pend []*pending
	var tests []overlayTest
	// probes of known findings of this property
	probeName := map[*KnownFinding]string{}
	for i := range known.Findings {
		kf := &known.Findings[i]
		if kf.Status != "known" || kf.Probe == "" {
			continue
		}
		// a finding recorded under another property is honoured when the same obligation is
		// part of this property's check as well (the obligation name identifies it)
		relevant := kf.Property == rep.prop
		for _, vc := range failed {
			if obligationMatches(kf.Obligation, vc.Name) {
				relevant = true
			}
		}
		if !relevant {
			continue
		}
		name := fmt.Sprintf("VerifProbe%d", i)
		probeName[kf] = name
		body := fmt.Sprintf("\t\tpresent := false\n%s\n\t\tif present {\n\t\t\tfmt.Printf(\"VERIF-RESULT %s fail defect-present\\n\")\n\t\t} else {\n\t\t\tfmt.Printf(\"VERIF-RESULT %s pass defect-absent\\n\")\n\t\t}\n", kf.Probe, name, name)
		tests = append(tests, overlayTest{Name: name, Body: body})
	}
	nReplays := 0
	for i, vc := range failed {
		p := &pending{vc: vc}
		for k := range known.Findings {
			kf := &known.Findings[k]
			if kf.Status == "known" && obligationMatches(kf.Obligation, vc.Name) && (p.kf == nil || kf.Property == rep.prop) {
				p.kf = kf
			}
		}
		if p.kf == nil && vc.Status == "sat" && nReplays >= 8 {
			p.note = "replay not generated: more than 8 failed obligations with a model in this run (the first 8 are replayed)"
		}
		if p.kf == nil && vc.Status == "sat" && nReplays < 8 {
			nReplays++
			t, args, note := buildReplay(w, vc, rep.prelude, rep.outDir, fmt.Sprintf("VerifReplay%d", i))
			p.test, p.args, p.note = t, args, note
			if t != nil {
				tests = append(tests, *t)
			}
		}
		pend = append(pend, p)
	}
	// failed overflow obligations with a model: instrument the flagged operation for the replay
	var ovf []*VC
	for _, p := range pend {
		if p.kf == nil && p.test != nil && p.vc.Kind == "safe.overflow" {
			ovf = append(ovf, p.vc)
		}
	}
	overlayReplace = map[string]string{}
	instrumentOverflow(w, ovf, filepath.Join(rep.outDir, "instr"))
	verdicts := map[string]string{}
	testOut := ""
	if len(tests) > 0 {
		verdicts, testOut = runOverlayTests(w, tests, rep.outDir)
		if strings.Contains(testOut, "[build failed]") || strings.Contains(testOut, "cannot find") {
			os.WriteFile(filepath.Join(rep.outDir, "overlay_test_output.txt"), []byte(testOut), 0o644)
		}
	}
	// frame failures
	for _, fo := range rep.frame {
		if fo.OK {
			continue
		}
		matched := false
		for k := range known.Findings {
			kf := &known.Findings[k]
			if kf.Property == rep.prop && kf.Status == "known" && obligationMatches(kf.Obligation, fo.Name) {
				matched = true
				line := fmt.Sprintf("KNOWN-FINDING: property=%s %s [%s] %s", rep.prop, kf.ID, fo.Name, kf.What)
				knownLines = append(knownLines, line)
				knownHit = append(knownHit, map[string]any{"id": kf.ID, "obligation": fo.Name, "what": kf.What})
			}
		}
		if matched {
			nObl--
			continue
		}
		violations++
		rp := filepath.Join(rep.replayDir, sanitizeFile(fo.Name)+".json")
		b, _ := json.MarshalIndent(map[string]any{"property": rep.prop, "obligation": fo.Name, "backend": "frame-checker", "detail": fo.Detail, "sites": fo.Sites,
			"note": "frame obligations have no input: the offending statements are listed"}, "", " ")
		os.WriteFile(rp, b, 0o644)
		fmt.Printf("FAILED %s: %s\n", fo.Name, fo.Detail)
		fmt.Printf("VIOLATION property=%s replay=%s no-failing-input-found\n", rep.prop, rp)
	}
	knownSeen := map[string]bool{}
	for _, p := range pend {
		vc := p.vc
		if p.kf != nil {
			// expected failure: confirm the recorded witness still shows the defect
			name := probeName[p.kf]
			v := verdicts[name]
			if p.kf.Probe == "" || v == "fail" || v == "panic" {
				if !knownSeen[p.kf.ID+vc.Name] {
					knownSeen[p.kf.ID+vc.Name] = true
					line := fmt.Sprintf("KNOWN-FINDING: property=%s %s [%s] %s (witness: %s)", rep.prop, p.kf.ID, vc.Name, p.kf.What, p.kf.Witness)
					knownLines = append(knownLines, line)
					knownHit = append(knownHit, map[string]any{"id": p.kf.ID, "obligation": vc.Name, "status": vc.Status, "probe": v, "what": p.kf.What})
				}
				nObl--
				continue
			}
			// the recorded witness no longer fails but the obligation does: a different violation
		}
		violations++
		rp := filepath.Join(rep.replayDir, sanitizeFile(vc.Name)+".json")
		rec := map[string]any{"property": rep.prop, "obligation": vc.Name, "function": vc.Func, "at": vc.Pos, "clause": vc.ClauseText,
			"status": vc.Status, "solver": vc.Solver, "solver_output": firstLines(vc.Output, 40), "smt_file": vcFileName(filepath.Join(rep.outDir, "smt"), vc)}
		if vc.Status == "outside-subset" {
			rec["reason"] = outsideFuncs[vc.fv.instName]
		}
		suffix := " no-failing-input-found"
		if p.test != nil {
			v := verdicts[p.test.Name]
			rec["replay_test"] = p.test.Body
			rec["replay_inputs"] = p.args
			rec["replay_verdict"] = v
			reproduced := false
			if (strings.HasPrefix(vc.Kind, "ensures") || strings.HasPrefix(vc.Kind, "expect")) && v == "fail" {
				reproduced = true
			}
			if (strings.HasPrefix(vc.Kind, "safe.") || strings.HasPrefix(vc.Kind, "call@")) && v == "panic" && vc.Kind != "safe.overflow" {
				reproduced = true
			}
			if vc.Kind == "safe.overflow" && v == "overflow" {
				reproduced = true
				rec["overflow_observed"] = verdicts[p.test.Name+"#detail"]
				rec["replay_instrumentation"] = "the flagged operation was replaced by a math/big-checked copy in an overlay of the source file"
			}
			if (strings.HasPrefix(vc.Kind, "ensures") || strings.HasPrefix(vc.Kind, "expect")) && v == "panic" {
				reproduced = true
			}
			if reproduced {
				suffix = ""
				rec["reproduced_on_real_code"] = true
			} else {
				rec["reproduced_on_real_code"] = false
				if v == "error" {
					rec["replay_output"] = firstLines(testOut, 60)
				}
			}
		} else if p.note != "" {
			rec["replay_note"] = p.note
		}
		b, _ := json.MarshalIndent(rec, "", " ")
		os.WriteFile(rp, b, 0o644)
		fmt.Printf("FAILED %s (%s, %s) at %s\n", vc.Name, vc.Status, vc.Solver, vc.Pos)
		if vc.ClauseText != "" {
			fmt.Printf("       clause: %s\n", vc.ClauseText)
		}
		for _, a := range p.args {
			fmt.Printf("       input %s = %s\n", a.Name, a.Go)
		}
		fmt.Printf("VIOLATION property=%s replay=%s%s\n", rep.prop, rp, suffix)
	}
	// bounded stand-ins
	var boundedEv []any
	for _, br := range rep.bounded {
		boundedEv = append(boundedEv, map[string]any{"what": br.What, "bound": br.Bound, "cases": br.Cases, "exhaustive": br.Exhaustive, "failures": len(br.Failures), "label": "bounded (not counted as proved)"})
		for _, f := range br.Failures {
			matched := false
			for k := range known.Findings {
				kf := &known.Findings[k]
				if kf.Property == rep.prop && kf.Status == "known" && obligationMatches(kf.Obligation, br.Name) {
					v := verdicts[probeName[kf]]
					if kf.Probe == "" || v == "fail" || v == "panic" {
						matched = true
						if !knownSeen[kf.ID+br.Name] {
							knownSeen[kf.ID+br.Name] = true
							knownLines = append(knownLines, fmt.Sprintf("KNOWN-FINDING: property=%s %s [%s] %s (witness: %s)", rep.prop, kf.ID, br.Name, kf.What, kf.Witness))
							knownHit = append(knownHit, map[string]any{"id": kf.ID, "obligation": br.Name, "probe": v, "what": kf.What, "first_failing_case": f})
						}
					}
				}
			}
			if matched {
				break
			}
			violations++
			rp := filepath.Join(rep.replayDir, sanitizeFile(br.Name)+".json")
			b, _ := json.MarshalIndent(map[string]any{"property": rep.prop, "obligation": br.Name, "kind": "bounded stand-in", "failing_input": f, "bound": br.Bound}, "", " ")
			os.WriteFile(rp, b, 0o644)
			fmt.Printf("FAILED bounded %s: %s\n", br.Name, f)
			fmt.Printf("VIOLATION property=%s replay=%s\n", rep.prop, rp)
			break
		}
	}
	for _, l := range knownLines {
		fmt.Println(l)
	}
	// vacuity: no obligations at all is a failure of the machinery
	if nObl == 0 && len(rep.bounded) == 0 {
		violations++
		rp := filepath.Join(rep.replayDir, "no-obligations.json")
		os.WriteFile(rp, []byte(`{"reason":"no obligations were generated for this property"}`), 0o644)
		fmt.Printf("VIOLATION property=%s replay=%s no-failing-input-found\n", rep.prop, rp)
	}
	// evidence
	var funcs []any
	var notUnder []string
	trusted := map[string]bool{}
	assumptions := map[string]bool{}
	for _, r := range rep.funcs {
		status := "in-subset"
		if len(r.Outside) > 0 {
			status = "outside-subset"
		}
		n, d := 0, 0
		for _, vc := range r.VCs {
			if vc.MustFail || !hasProp(vc.Props, rep.prop) {
				continue
			}
			n++
			if vc.Status == "unsat" {
				d++
			}
		}
		funcs = append(funcs, map[string]any{"function": r.Inst, "file": w.prog.FileOf[r.Key], "status": status, "obligations": n, "discharged": d,
			"inlined_callees": r.Inlined, "callees_by_contract": r.Called, "assumption_tags": r.Tags})
		for _, t := range r.Tags {
			assumptions[t] = true
		}
	}
	sort.Strings(notUnder)
	for _, fc := range w.prog.C.Funcs {
		if fc.Trusted && hasProp(fc.Props, rep.prop) {
			trusted[fc.Key()] = true
		}
	}
	tb := []string{"govc (this verifier: typed-AST symbolic execution -> SMT-LIB)", "SMT solvers z3 5.1.0 / cvc5 1.0.3 / z3 4.8.12", "go/types, go/packages"}
	for k := range trusted {
		tb = append(tb, "trusted contract (body not verified): "+k)
	}
	as := []string{}
	for a := range assumptions {
		as = append(as, assumptionText(a))
	}
	sort.Strings(as)
	as = append(as, propertyAssumptions(rep.prop)...)
	wall := time.Since(rep.start).Seconds()
	cov := map[string]any{
		"obligations": nObl, "discharged": nDis,
		"checker_cmd":  fmt.Sprintf("/verif/bin/govc check %s %s", rep.prop, rep.tier),
		"trusted_base": tb,
		"samples":      samples,
		"functions_under_contract": funcs,
		"by_backend":   byBackend,
		"solver_time_s": round3(solverTime),
		"vacuity":      map[string]any{"covers": covers, "covers_satisfiable": coversOK},
		"known_findings": knownHit,
		"bounded":      boundedEv,
		"decided_clauses":   decidedClauses(rep.prop),
		"undecided_clauses": undecidedClauses(rep.prop),
		"arithmetic_model":  "int/int64/uint64 as mathematical Int with explicit range obligations; float64 as Real (float-as-real)",
		"extraction_drops":  "slice capacity; goroutines/channels/unsafe (outside subset); fmt/error values opaque; float rounding",
	}
	if len(samples) == 0 {
		cov["samples"] = []any{"(no discharged obligation)"}
	}
	ev := map[string]any{"property_id": rep.prop, "tier": rep.tier, "seed": rep.seed, "level": "proof", "coverage": cov, "assumptions": as, "wall_s": round3(wall), "violations": violations}
	writeEvidence(evFile, ev)
	fmt.Printf("property %s (%s): %d obligations, %d discharged, %d known-finding obligation(s), %d violation(s), %.1fs\n", rep.prop, rep.tier, nObl, nDis, len(knownHit), violations, wall)
	if violations > 0 {
		return 1
	}
	return 0
}

func round3(f float64) float64 { return float64(int(f*1000+0.5)) / 1000 }

func sanitizeFile(s string) string {
	n := sanitize(s)
	n = strings.NewReplacer("#", "-", "@", "-", ":", "-", "<", "lt", ">", "gt", "=", "eq", "&", "and", "|", "or", "!", "not", "+", "plus", "%", "pct", ",", "_", "'", "", "\"", "", "{", "_", "}", "_", "~", "-", "^", "x", ";", "_", "?", "_").Replace(n)
	if len(n) > 120 {
		n = fmt.Sprintf("%s_%08x", n[:110], crc32.ChecksumIEEE([]byte(s)))
	}
	return n
}

func assumptionText(tag string) string {
	switch {
	case tag == "float-as-real":
		return "float-as-real: float64 + - * / are treated as exact real arithmetic"
	case tag == "int-to-float-exact":
		return "int-to-float-exact: float64(int) is treated as the exact value (true for magnitudes up to 2^53)"
	case tag == "decimal-contract":
		return "decimal-contract: github.com/govalues/decimal New/NewFromFloat64/Mul/Add/Float64 are exact, Int64(0) rounds to a nearest integer"
	case tag == "callbacks-pure":
		return "callbacks-pure: user callbacks (function values) have no side effects on library state"
	case tag == "value-pointers":
		return "value-pointers: a pointer to a scalar, slice or plain struct (*int, *Location, *Paths64, ...) is modelled as its pointee: assumed non-nil and not aliased with another such pointer (call sites in the package pass addresses of distinct locals or fields)"
	case tag == "receiver-non-nil":
		return "receiver-non-nil: methods are verified for non-nil receivers (checked at call sites inside the package)"
	case strings.HasPrefix(tag, "no-contract-callee-havocked:"):
		return tag + " (sound: results and everything the callee may write are unconstrained)"
	}
	return tag
}
