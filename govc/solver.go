package main

import (
	"hash/crc32"
	"context"
	"fmt"
	"os"
	"os/exec"
	"path/filepath"
	"strings"
	"sync"
	"time"
)

type SolverCfg struct {
	Name string
	Cmd  func(file string, timeoutS int, seed int) []string
}

var solvers = []SolverCfg{
	{"z3-new", func(f string, t int, seed int) []string {
		return []string{"z3-new", "-smt2", fmt.Sprintf("-T:%d", t), fmt.Sprintf("smt.random_seed=%d", seed), f}
	}},
	{"cvc5", func(f string, t int, seed int) []string {
		return []string{"cvc5", "--lang", "smt2", fmt.Sprintf("--tlimit=%d", t*1000), fmt.Sprintf("--seed=%d", seed), f}
	}},
	{"z3", func(f string, t int, seed int) []string {
		return []string{"z3", "-smt2", fmt.Sprintf("-T:%d", t), fmt.Sprintf("smt.random_seed=%d", seed), f}
	}},
}

func vcFileName(dir string, vc *VC) string {
	n := sanitize(vc.Name)
	n = strings.NewReplacer("#", "-", "@", "-", ":", "-", "<", "lt", ">", "gt", "=", "eq", "&", "and", "|", "or", "!", "not", "+", "plus", "%", "pct", ",", "_", "'", "", "\"", "", "{", "_", "}", "_", "~", "-", "^", "x", ";", "_", "?", "_").Replace(n)
	if len(n) > 150 {
		// keep names distinct: a long clause label must not make the obligations of different returns share a file
		n = fmt.Sprintf("%s_%08x", n[:140], crc32.ChecksumIEEE([]byte(vc.Name)))
	}
	return filepath.Join(dir, n+".smt2")
}

// smtText renders one obligation.
func (vc *VC) smtText(prelude string, extra string) string {
	smtMu.RLock()
	defer smtMu.RUnlock()
	var b strings.Builder
	b.WriteString("; obligation " + vc.Name + "\n; at " + vc.Pos + "\n")
	if vc.ClauseText != "" {
		b.WriteString("; clause: " + vc.ClauseText + "\n")
	}
	var body strings.Builder
	for _, d := range vc.fv.decls[:vc.NDecls] {
		body.WriteString(d + "\n")
	}
	for _, h := range vc.Hyps {
		body.WriteString(h + "\n")
	}
	body.WriteString(vc.Goal + "\n" + extra)
	b.WriteString(vc.fv.smt.PreludeFor(body.String()))
	for _, d := range vc.fv.decls[:vc.NDecls] {
		b.WriteString(d + "\n")
	}
	for _, h := range vc.Hyps {
		b.WriteString("(assert " + h + ")\n")
	}
	b.WriteString("(assert (not " + vc.Goal + "))\n")
	b.WriteString("(check-sat)\n")
	b.WriteString(extra)
	return b.String()
}

type solveResult struct {
	status string
	solver string
	out    string
	t      float64
}

func runSolver(ctx context.Context, s SolverCfg, file string, timeoutS, seed int) solveResult {
	start := time.Now()
	args := s.Cmd(file, timeoutS, seed)
	cctx, cancel := context.WithTimeout(ctx, time.Duration(timeoutS+2)*time.Second)
	defer cancel()
	cmd := exec.CommandContext(cctx, args[0], args[1:]...)
	out, _ := cmd.CombinedOutput()
	el := time.Since(start).Seconds()
	text := string(out)
	first := strings.TrimSpace(strings.SplitN(strings.TrimSpace(text), "\n", 2)[0])
	status := "unknown"
	switch first {
	case "unsat":
		status = "unsat"
	case "sat":
		status = "sat"
	case "timeout":
		status = "timeout"
	case "unknown":
		status = "unknown"
	default:
		if cctx.Err() != nil {
			status = "timeout"
		} else if strings.Contains(text, "error") {
			status = "error"
		}
	}
	return solveResult{status, s.Name, text, el}
}

// solveVC races the solvers on one obligation.
func solveVC(vc *VC, prelude, dir string, timeoutS, seed int, twoSolvers bool) {
	if vc.Status == "detached" {
		return
	}
	file := vcFileName(dir, vc)
	os.WriteFile(file, []byte(vc.smtText(prelude, "")), 0o644)
	start := time.Now()
	if strings.HasPrefix(vc.Kind, "expect") && timeoutS > 5 {
		// clauses recorded as known findings: a short budget is enough to see them pass once repaired
		timeoutS = 5
	}
	if vc.MustFail {
		// vacuity covers are satisfiability checks: only a proof of unsat matters; one solver, 2 s
		r := runSolver(context.Background(), solvers[0], file, 2, seed)
		vc.Status, vc.Solver, vc.Output, vc.TimeS = r.status, r.solver, r.out, time.Since(start).Seconds()
		return
	}
	if vc.fv.fc != nil && vc.fv.fc.Budget > 0 && vc.fv.fc.Budget < timeoutS {
		timeoutS = vc.fv.fc.Budget
	}
	// stage 1: z3-new alone, short
	short := 3
	if timeoutS < short {
		short = timeoutS
	}
	r := runSolver(context.Background(), solvers[0], file, short, seed)
	if (r.status == "unsat" || r.status == "sat") && !twoSolvers {
		vc.Status, vc.Solver, vc.Output, vc.TimeS = r.status, r.solver, r.out, time.Since(start).Seconds()
		return
	}
	// stage 2: race all
	ctx, cancel := context.WithCancel(context.Background())
	defer cancel()
	ch := make(chan solveResult, len(solvers))
	for _, s := range solvers {
		s := s
		go func() { ch <- runSolver(ctx, s, file, timeoutS, seed) }()
	}
	var results []solveResult
	best := solveResult{status: "unknown"}
	decided := 0
	var grace <-chan time.Time
collect:
	for i := 0; i < len(solvers); i++ {
		var rr solveResult
		select {
		case rr = <-ch:
		case <-grace:
			// thorough tier: the second opinion did not arrive within the grace period
			break collect
		}
		results = append(results, rr)
		if rr.status == "unsat" || rr.status == "sat" {
			if decided == 0 {
				best = rr
				if twoSolvers {
					grace = time.After(10 * time.Second)
				}
			} else if rr.status != best.status {
				best = solveResult{status: "disagree", solver: best.solver + "/" + rr.solver, out: best.out + "\n---\n" + rr.out}
				break
			}
			decided++
			if !twoSolvers || decided >= 2 {
				break
			}
		} else if best.status == "unknown" && rr.status == "timeout" && decided == 0 {
			best = rr
		}
	}
	cancel()
	if decided == 0 {
		var outs []string
		st := "unknown"
		nerr := 0
		for _, rr := range results {
			outs = append(outs, rr.solver+": "+strings.TrimSpace(firstLines(rr.out, 3)))
			if rr.status == "timeout" {
				st = "timeout"
			}
			if rr.status == "error" {
				nerr++
			}
		}
		if nerr == len(results) {
			st = "error"
		}
		best = solveResult{status: st, solver: "none", out: strings.Join(outs, "\n")}
	}
	if twoSolvers && decided == 1 && best.status == "unsat" {
		best.solver += " (single)"
	}
	vc.Status, vc.Solver, vc.Output, vc.TimeS = best.status, best.solver, best.out, time.Since(start).Seconds()
}

func firstLines(s string, n int) string {
	ls := strings.Split(s, "\n")
	if len(ls) > n {
		ls = ls[:n]
	}
	return strings.Join(ls, "\n")
}

// solveAll discharges obligations in parallel.
// altWorld lets the solver stage ask for the same obligation generated without explicit
// instantiation patterns (z3 switches MBQI off for quantifiers that carry patterns; some
// goals need E-matching hints, others need MBQI).
var altWorld *World
var altCache = map[string]*FuncResult{}
var altMu sync.Mutex
var smtMu sync.RWMutex

func altVC(vc *VC) *VC {
	if altWorld == nil || vc.fv == nil || vc.fv.fd == nil || vc.fv.noPatterns {
		return nil
	}
	altMu.Lock()
	defer altMu.Unlock()
	r, ok := altCache[vc.fv.instName]
	if !ok {
		var orig *FuncResult
		for _, fr := range altWorld.res {
			if fr.Inst == vc.fv.instName {
				orig = fr
			}
		}
		if orig == nil {
			return nil
		}
		smtMu.Lock()
		r = VerifyFunc(altWorld.prog, altWorld.smt, altWorld.eff, orig.Key, orig.Contract, orig.Subst, orig.Inst, true)
		smtMu.Unlock()
		altCache[vc.fv.instName] = r
	}
	for _, v := range r.VCs {
		if v.Name == vc.Name {
			return v
		}
	}
	return nil
}

func solveAll(vcs []*VC, prelude, dir string, timeoutS, seed, workers int, twoSolvers bool) {
	os.MkdirAll(dir, 0o755)
	var wg sync.WaitGroup
	ch := make(chan *VC)
	for w := 0; w < workers; w++ {
		wg.Add(1)
		go func() {
			defer wg.Done()
			for vc := range ch {
				solveVC(vc, prelude, dir, timeoutS, seed, twoSolvers)
				if vc.Status != "unsat" && vc.Status != "sat" && !vc.MustFail && !strings.HasPrefix(vc.Kind, "expect") {
					if alt := altVC(vc); alt != nil {
						alt.Name = vc.Name + ".nopat"
						solveVC(alt, prelude, dir, timeoutS, seed, twoSolvers)
						alt.Name = vc.Name
						if alt.Status == "unsat" || alt.Status == "sat" {
							vc.Status, vc.Solver, vc.Output, vc.TimeS = alt.Status, alt.Solver+" (no patterns)", alt.Output, vc.TimeS+alt.TimeS
							vc.fv, vc.Hyps, vc.Goal, vc.NDecls = alt.fv, alt.Hyps, alt.Goal, alt.NDecls
						}
					}
				}
			}
		}()
	}
	for _, vc := range vcs {
		ch <- vc
	}
	close(ch)
	wg.Wait()
}

// provable: eager side query used for sound simplifications ("cuts") during generation.
func (fv *FnV) provable(st *State, goal string) bool {
	if fv.spec || st.dead {
		return false
	}
	var body strings.Builder
	for _, d := range fv.decls {
		body.WriteString(d + "\n")
	}
	for _, h := range st.pc {
		body.WriteString("(assert " + h + ")\n")
	}
	body.WriteString("(assert (not " + goal + "))\n(check-sat)\n")
	text := fv.smt.PreludeFor(body.String()) + body.String()
	os.MkdirAll(outRoot+"/cuts", 0o755)
	fv.ncut++
	file := fmt.Sprintf(outRoot+"/cuts/%s_%d.smt2", sanitizeFile(fv.instName), fv.ncut)
	os.WriteFile(file, []byte(text), 0o644)
	r := runSolver(context.Background(), solvers[0], file, 2, 0)
	return r.status == "unsat"
}
