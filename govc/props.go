package main

// Per-property clause lists (D = decided by discharged obligations, U = undecided by
// this family), copied into every evidence file.  See DESIGN.md section 4.

var decided = map[string][]string{}
var undecided = map[string][]string{}
var propAssume = map[string][]string{}

func decidedClauses(p string) []string {
	if v, ok := decided[p]; ok {
		return v
	}
	return []string{}
}
func undecidedClauses(p string) []string {
	if v, ok := undecided[p]; ok {
		return v
	}
	return []string{}
}
func propertyAssumptions(p string) []string { return propAssume[p] }
