package main

// Per-property clause lists (D = decided by discharged obligations, B = bounded stand-in,
// U = undecided by this family), copied into every evidence file.  See DESIGN.md section 4.

var decided = map[string][]string{
	"C14": {
		"triSign(x) == sign(x) for x != 1 (x == 1: known finding F2)",
		"multiplyUInt64: Hi*2^64 + Lo == a*b for all uint64 a, b, no intermediate overflow",
		"productsAreEqual(a,b,c,d) == (a*b == c*d) for magnitudes <= 2^53 when no factor equals 1",
		"isCollinear == (integer cross product == 0) on the 2^29 domain when no coordinate difference equals 1",
		"CrossProduct: zero iff cross == 0, same sign as the integer cross product, exact value up to 2^53, no int64 overflow on the 2^29 domain",
		"getBounds / GetBounds64: every vertex inside the returned rectangle, each side attained by some vertex, Rect64{} for the empty path",
		"Area64: loop accumulates the exact shoelace sum while it stays within int64; result*2 == shoelace sum (decimal contract); IsPositive64 == (sum >= 0); AreaPaths64 sums path areas",
		"PointInPolygon: index safety for every polygon length, len < 3 => IsOutside",
		"PointInPolygon: at each of the three IsOn returns the point lies on the closed polygon edge being examined (exact integer statement; edge = polygon[i-1 cyclically], polygon[i]); the scan keeps the vertex before the scan position on the current side of the level or on it",
		"exact specifications of the small predicates and constructors in core.go / generics.go (Rect64 Contains/Intersects/IsEmpty/MidPoint/AsPath, NewRect64Invalid, Point64.Equals, absInt, getEdgesForPt, ...)",
	},
	"C15": {
		"TrimCollinear64: all index expressions in range for every length; all four loops terminate",
		"every result vertex is an input vertex; open paths keep first and last point (or the documented short-path results)",
		"closed result has 0 or >= 3 vertices whenever isCollinear is exact on the path's points (F2 carve-out)",
		"isCollinear contract as in C14",
	},
	"C16": {
		"getNext/getPrior: cyclically next/previous unflagged index, in range, terminate",
		"SimplifyPath64/D: index safety, preconditions of getNext/getPrior at every call, len < 4 returns the argument, result vertices are input vertices, open end points kept for epsilon^2 < MaxFloat64",
		"SimplifyPaths64/D: path by path",
		"PerpendicDistFromLineSqr64 == cross^2/|line|^2, no overflow on the 2^29 domain; translation invariance and s^2 scaling of that value (lemmas)",
		"PerpendicDistFromLineSqr64 in rounded float arithmetic: a point on the line gets exactly 0, a point off the line a positive value, on the whole 2^29 domain (F44 repaired); value exact whenever the cross product fits 2^53",
	},
	"C01": {
		"contribution rule: isContributingClosed == (membership of the requested boolean combination differs across the edge), all clip types x fill rules x path types x windings",
		"winding hand-over in setWindCountForClosedPathEdge (all branches) and edge-by-edge accumulation of the other type's winding",
		"winding transfer across an intersection in intersectEdges (same type, other type, EvenOdd and non-EvenOdd)",
		"integer primitives on the 2^29 domain: CrossProduct, dotProduct64, isCollinear, getSegmentIntersectPt (parallel test, box), getDx",
		"processIntersectList: crossings of one beam are processed bottom-up, ties left to right (sort.Slice modelled by its comparator); only neighbouring edges are crossed; both edges move to the crossing; a join made at a crossing needs the crossing on the neighbour's line",
		"insertLocalMinimaIntoAEL: bound towards prev winds -1, towards next +1, the bound leaving to the left is inserted left, the right bound directly right of it with the same winding counts",
		"doHorizontal: the horizontal advances to each edge it crosses; no edge beyond its span is crossed unless it ends at its maximum; doMaxima / updateEdgeIntoAEL / doTopOfScanbeam: edge-advance and open-end clauses; buildIntersectList: only out-of-order pairs are recorded, the overtaking edge moves directly in front of the overtaken one",
		"addPathsToVertexList: up-to-down turn = local maximum, down-to-up turn = local minimum (registered once), direction kept between turns; closed paths start in the direction of the nearest predecessor on another level",
		"isValidAelOrder (verified, no longer trusted): larger X goes right; at equal X the turn at the newcomer's bottom decides",
		"exact specifications of the sweep's small predicates (isHotEdge, isOpen, isFront, isHorizontal, isHeading*Horz via the infinity constants, isMaxima, nextVertex, ...)",
	},
	"C19": {
		"the boolean table satisfies the set identities pointwise (disjoint decomposition of Union, Xor = Union minus Intersection, Difference = subject minus Intersection, [U]+[I] = [s]+[c])",
		"contribution rule shared with C01",
		"UnionPaths64 / UnionWithClip / IntersectWithClip / DifferenceWithClip / XorWithClip wrappers pass the right clip type; UnionPaths64 uses a nil clip",
		"BooleanOpPaths64 / BooleanOpPolyTree64 / BooleanOpPathsD / BooleanOpPolyTreeD wiring: subject added as closed Subject paths, clip as closed Clip paths, requested clip type and fill rule executed (local triples around the engine calls)",
	},
	"C09": {
		"isContributingOpen is the property's sentence verbatim (per clip type, fill rule applied to windings)",
		"setWindCountForOpenPathEdge counts exactly the closed subject edges / clip edges to the left, edge by edge",
		"intersectEdges open/closed crossing: an open path is cut only at a closed edge that bounds a filled region under the fill rule (+1 Positive, -1 Negative, +-1 otherwise), outside Union only at clip edges, in Union only at contributing edges; the closed edge is untouched",
		"addPathsToVertexList: an open path's first vertex carries OpenStart (and LocalMax when it starts downwards); clearSolutionOnly / reset keep hasOpenPaths and the configuration flags",
	},
	"C07": {
		"ScalePathDToPath64 / ScalePath64ToPathD / Paths variants: element-wise quantisation and scaling",
		"precision-range panic exactly when documented: checkPrecision, NewClipperD, TrimCollinearD, MinkowskiSumD/DiffD, RectClipPathsD, RectClipLinesPathsD",
		"TrimCollinearD, MinkowskiSumD/DiffD, RectClipPathsD, RectClipLinesPathsD == unscale o 64-bit operation o scale",
		"NewClipperD wires scale = 10^p and invScale = 1/scale",
		"clipperD.AddPaths hands the integer engine exactly ScalePathsDToPaths64(paths, scale) with the same path type and open flag; clipperD.ExecuteOC divides every closed and open result path by the scale, path by path; BooleanOpPathsD / BooleanOpPolyTreeD build the engine for the requested precision (default 2)",
	},
	"C08": {
		"minkowskiInternal: exact quad count, every quad is the parallelogram of a (path edge, pattern edge) pair built from path[i] +/- pattern[j], index/capacity/overflow safety",
		"ReversePath; MinkowskiSum64/Diff64 == UnionPaths64(minkowskiInternal(...), NonZero)",
	},
	"C13": {
		"translation invariance and s^2 scaling of cross/dot products and perpendicular distance (lemmas)",
		"productsAreEqual / isCollinear exact up to 2^61 when no factor equals 1",
		"CrossProduct overflow-free and sign-exact up to 2^30; getDx; checkCastInt64",
		"isClockwise (rectangle clipper) overflow-free up to 2^61; GetLowestPathInfo finds a lowest path wherever the paths lie (no sentinel depends on the sign of Y)",
	},
	"C03": {
		"panic-freedom (index, slice bounds, nil dereference, division by zero, make size, explicit panic) of the functions listed under functions_under_contract, for all inputs satisfying the stated preconditions",
		"termination where a decreases clause is listed (getNext, getPrior, TrimCollinear64 loops, PointInPolygon inner loops, ReversePath, minkowskiInternal, reset)",
		"documented precision panic happens exactly when the precision is out of range",
	},
	"C02": {
		"buildPath: degenerate rings rejected, no two consecutive emitted vertices equal, closed 3-vertex result rejected iff very small triangle",
		"ptsReallyClose, isVerySmallTriangle, isValidClosedPath exact",
		"buildPaths: records routed by isOpen, records without points skipped",
		"cleanCollinear: a vertex leaves a ring only if it repeats a neighbour or is collinear with its neighbours (and preserve-collinear permits it); a vertex the scan passes differs from both neighbours; points are never moved",
		"processHorzJoins: two rings welded into one leave the second ring without points; convertHorzSegsToJoins: joins only for overlapping segments of opposite direction, at most one per pair; executeInternal: horizontal segments are consumed before the sweep leaves their scanline",
		"checkJoinLeft/Right: at a crossing a join needs the crossing point on the neighbour's line",
	},
	"C04": {
		"AddChild: fresh child with parent == receiver and polygon == argument, appended exactly once, siblings untouched",
		"Level / IsHole for depth 0, 1, 2 and the per-iteration step; Clear; Count",
		"recursiveCheckOwners never re-attaches a record that already has a node",
		"addLocalMaxPoly (tree mode): a ring closed at the far left has no owner; otherwise it is owned by the ring of the hot closed edge directly to its left",
		"checkSplitOwner: when no owner is found every live listed split has been visited, including the splits of a newly visited live split (recursion contract); marks persist; getRealOutRec / isValidOwner / setOwner / getPrevHotEdge walkers",
	},
	"C05": {
		"StripDuplicates functional contract; NewGroup / AddPaths / NewClipperOffset wiring",
		"|delta| < 0.5 copies the (stripped) input paths; effective delta sign by orientation; paired fill rule and reverse flag for the final union",
		"getUnitNormal, buildNormals, getPerpendic, doMiter, doBevel, intersectPoint, reflectPoint geometry (real model)",
		"Group.GetLowestPathInfo: a group with a path of non-zero area always has a lowest path; doGroupOffset: a single point becomes the square of half-width ceil(delta)",
	},
	"C10": {
		"StripDuplicates keeps both end points of an open path; buildNormals; doBevel end-cap formula; open groups use |delta| and are never reversed",
		"doGroupOffset: a single point with a non-round end type becomes the axis-parallel square of half-width ceil(delta) around it",
	},
	"C06": {
		"getLocation total specification",
		"getSegmentIntersection: touching cases lie on the rectangle edge; no result when both end points are strictly on one side",
		"fast paths of RectClip64.Execute: inside => unchanged, beside => nothing, empty rectangle => nothing",
		"NewRectClip64 wiring",
		"index safety of executeInternal, getNextLocation, getIntersection, addCorner, addCornerLocation; getNextLocation leaves the previous side; getIntersection reports a side when it finds a crossing",
		"getSegmentIntersection: an end point lying on the line of an axis-parallel rectangle edge is a hit exactly when it lies on that edge (both end points; a segment along the edge line is no crossing)",
		"isClockwise: opposite sides turn by the sign of the exact cross product through the mid-point; exact specs of getEdgesForPt, isHeadingClockwise, hasHorz/VertOverlap, areOpposites, Rect64 helpers",
	},
	"C11": {
		"getLocation / getSegmentIntersection / getIntersection / getNextLocation as in C06; NewRectClip64 passes the line path extractor; RectClipLinesPaths64 empty cases and composition with RectClipLines64.Execute",
		"executeInternalPath64: every index expression in range for every open path (incl. paths lying on the rectangle boundary); RectClipLines64.Execute panic-free",
		"executeInternalPath64: the walk starts at the second vertex (no leading segment is skipped) after the look-ahead over boundary vertices; getSegmentIntersection end-point clauses as in C06",
	},
	"C12": {
		"every public Execute* entry point re-establishes the idle state; constructors start idle; reset() re-initialises the per-run scratch fields",
		"succeeded, fillRule, clipType, currentBotY, currentLocMin, sel, usingPolyTree are written before read in every entry point's call tree",
		"pre-call contents of solution arguments are dead (replaced, not appended to)",
		"no exported function writes caller-supplied slices; AddPaths variants retain none; no package-level state",
		"clearSolutionOnly and reset keep what was added and configured (hasOpenPaths, sorted flag, preserve-collinear, reverse-solution, using-tree); reset sorts the minima bottom-up; a solution argument is never carved out of another caller-supplied slice; AddPaths wrappers pass paths, type and flag unchanged",
	},
	"C17": {
		"repeat calls are functions of their arguments: no package-level state, map iteration, clock, random source, environment access or address-as-integer in any function",
		"sort comparators (where listed under functions_under_contract) are total, antisymmetric orders",
		"reset: local minima sorted by Y descending (comparator modelled); processIntersectList order; horzSegSort and the sweep-driver contracts listed under C01/C02",
	},
	"C18": {
		"no function writes or takes the address of a package-level variable (transitively)",
		"package-level variables are initialised by pure expressions and are not of a mutable reference kind",
		"no goroutine, channel, select, sync/atomic/unsafe/runtime use",
		"exported functions only read caller-supplied slices",
	},
}

var undecided = map[string][]string{
	"C14": {"PointInPolygon: the three-way classification for arbitrary polygons (bounded stand-in only)", "Area64 when the exact sum leaves int64 (known finding F16 region)"},
	"C15": {"closed paths beyond the bound: sub-sequence in order, area unchanged, no collinear triple left, idempotence (bounded stand-in only)"},
	"C16": {"exit condition and termination of the main loop beyond the bound (bounded stand-in only)", "epsilon 0 area preservation beyond the bound"},
	"C01": {"the region statement itself beyond the sampled stand-in: composition of the lemmas through the sweep (AEL order, intersection schedule, joins, horizontals, cleanCollinear / fixSelfIntersects / doSplitOp)"},
	"C19": {"the area inequalities (need the region statement of C01)"},
	"C09": {"coverage of the subject lines beyond the sampled stand-in, cutting at intersections, open ends at maxima and horizontals, emission", "open paths with 180-degree spikes along a horizontal (known finding F37)"},
	"C07": {"BooleanOpPathsD / PolyTreeD / InflatePathsD composition with their 64-bit counterparts (heap-level engines)", "ScaleRectD rounding (known finding F8)", "NewClipperD(0) (known finding F17)"},
	"C08": {"the NonZero union of the quads (C01) and commutativity of the resulting region"},
	"C13": {"region-level translation/scaling invariance of whole operations beyond the sampled stand-in", "accuracy of the floating-point branch of CrossProduct, dotProduct64, getSegmentIntersectPt for factors of 2^31 and more (no wrap-around is proved, exactness is not claimed)"},
	"C03": {"termination and nil-safety of the sweep's list walks, Execute's success flag, the rectangle clipper's edge post-pass, offset join constructors (not under contract)"},
	"C02": {"winding 0/1 beyond the sampled stand-in; orientation signs, >= 3 vertices and first != last (need cleanCollinear's ring postcondition and the sweep)", "reverse option applied consistently (call-site argument of buildPath)"},
	"C04": {"owner correctness, containment within the parent, IsHole <=> negative orientation, same polygons as the flat result: beyond the sampled stand-in", "polygons that touch another polygon of the solution or are slivers (known finding F38); zero-area polygons (F39)"},
	"C05": {"both containment clauses, Round's arc tolerance and the negative-delta mirror statement beyond the sampled stand-in (star-shaped polygons, tolerance 3); doSquare / doRound geometry, offsetPoint's case analysis; multiple groups, custom miter limits and arc tolerances"},
	"C10": {"end caps (known finding F12), containment clauses, Joined loops, single-point circle"},
	"C06": {"winding-number clause and 'zero outside' beyond the bound (bounded exhaustive stand-in only)", "checkEdges / tidyEdgePair post-pass (not under contract); corner locations being sides is assumed"},
	"C11": {"vertices on the input line, two-point segments kept, never closed up, coverage: beyond the bound (bounded exhaustive stand-in only)", "order of the output pieces"},
	"C12": {"equality of results when the same paths are added in another order or split over several AddPaths calls (depends on the sweep's handling of equal-Y local minima)"},
	"C17": {"all region-equality clauses: permutation of paths, start-vertex rotation, duplicated vertices, reversal, subject/clip exchange, the 8 lattice symmetries (relational properties of the sweep)"},
	"C18": {"interleavings are not explored: the argument is the frame condition, under the assumption that the Go runtime and imported packages keep no racy shared state"},
}

var propAssume = map[string][]string{
	"C17": {"sort.Slice / slices.SortFunc are deterministic functions of their input"},
	"C18": {"the Go runtime and imported packages (math, sort, slices, fmt, errors, govalues/decimal, x/exp/constraints) keep no racy shared state", "user callbacks do not share state between calls"},
	"C12": {"user callbacks (deltaCallback, scaleFn) do not write library state"},
}

func decidedClauses(p string) []string {
	if v, ok := decided[p]; ok {
		return v
	}
	return []string{}
}
func undecidedClauses(p string) []string {
	if v, ok := undecided[p]; ok {
		return v
	}
	return []string{}
}
func propertyAssumptions(p string) []string { return propAssume[p] }
