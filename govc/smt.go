package main

import (
	"fmt"
	"go/constant"
	"go/types"
	"math/big"
	"sort"
	"strings"
)

// SMT holds the global prelude shared by all obligations: sort declarations,
// spec function definitions, uninterpreted symbols and axioms.
type SMT struct {
	sortDecls []string
	sortSeen  map[string]bool
	funDecls  []string
	funNames  []string
	funSeen   map[string]bool
	axioms    []string
	axiomTags []string
	heapStruct map[string]bool // named struct types that live on the heap (accessed by reference)
	tsubst    map[*types.TypeParam]types.Type
	pkg       *types.Package
}

func NewSMT(pkg *types.Package) *SMT {
	return &SMT{sortSeen: map[string]bool{}, funSeen: map[string]bool{}, heapStruct: map[string]bool{}, pkg: pkg}
}

func sanitize(s string) string {
	r := strings.NewReplacer("(", "_", ")", "_", " ", "_", "*", "P", "[", "_", "]", "_", ".", "_", "/", "_")
	return r.Replace(s)
}

func (s *SMT) resolve(t types.Type) types.Type {
	if tp, ok := t.(*types.TypeParam); ok {
		if s.tsubst != nil {
			if c, ok := s.tsubst[tp]; ok {
				return c
			}
			// match by name (clause functions have their own type parameter objects)
			for k, c := range s.tsubst {
				if k.Obj().Name() == tp.Obj().Name() {
					return c
				}
			}
		}
	}
	return t
}

func isIntType(t types.Type) bool {
	b, ok := t.Underlying().(*types.Basic)
	return ok && b.Info()&types.IsInteger != 0
}
func isFloatType(t types.Type) bool {
	b, ok := t.Underlying().(*types.Basic)
	return ok && b.Info()&types.IsFloat != 0
}
func isBoolType(t types.Type) bool {
	b, ok := t.Underlying().(*types.Basic)
	return ok && b.Info()&types.IsBoolean != 0
}
func isUnsigned(t types.Type) bool {
	b, ok := t.Underlying().(*types.Basic)
	return ok && b.Info()&types.IsUnsigned != 0
}

// intRange returns min,max of an integer type (64-bit int assumed)
func intRange(t types.Type) (*big.Int, *big.Int, bool) {
	b, ok := t.Underlying().(*types.Basic)
	if !ok {
		return nil, nil, false
	}
	p := func(k uint) *big.Int { return new(big.Int).Lsh(big.NewInt(1), k) }
	m1 := func(x *big.Int) *big.Int { return new(big.Int).Sub(x, big.NewInt(1)) }
	switch b.Kind() {
	case types.Int, types.Int64:
		return new(big.Int).Neg(p(63)), m1(p(63)), true
	case types.Int32:
		return new(big.Int).Neg(p(31)), m1(p(31)), true
	case types.Int16:
		return new(big.Int).Neg(p(15)), m1(p(15)), true
	case types.Int8:
		return new(big.Int).Neg(p(7)), m1(p(7)), true
	case types.Uint, types.Uint64, types.Uintptr:
		return big.NewInt(0), m1(p(64)), true
	case types.Uint32:
		return big.NewInt(0), m1(p(32)), true
	case types.Uint16:
		return big.NewInt(0), m1(p(16)), true
	case types.Uint8:
		return big.NewInt(0), m1(p(8)), true
	}
	return nil, nil, false
}

func bigLit(x *big.Int) string {
	if x.Sign() < 0 {
		return "(- " + new(big.Int).Neg(x).String() + ")"
	}
	return x.String()
}

func ratLit(r *big.Rat) string {
	n, d := r.Num(), r.Denom()
	neg := n.Sign() < 0
	an := new(big.Int).Abs(n)
	var s string
	if d.Cmp(big.NewInt(1)) == 0 {
		s = an.String() + ".0"
	} else {
		s = "(/ " + an.String() + ".0 " + d.String() + ".0)"
	}
	if neg {
		return "(- " + s + ")"
	}
	return s
}

func (s *SMT) isHeapPtr(t types.Type) bool {
	t = s.resolve(t)
	p, ok := t.Underlying().(*types.Pointer)
	if !ok {
		return false
	}
	return s.isHeapStruct(p.Elem())
}

func (s *SMT) isHeapStruct(t types.Type) bool {
	t = s.resolve(t)
	n, ok := t.(*types.Named)
	if !ok {
		if a, ok2 := t.(*types.Alias); ok2 {
			return s.isHeapStruct(types.Unalias(a))
		}
		return false
	}
	if _, ok := n.Underlying().(*types.Struct); !ok {
		return false
	}
	return s.heapStruct[n.Origin().Obj().Name()]
}

// sortOf maps a Go type to an SMT sort, declaring datatypes on demand.
func (s *SMT) sortOf(t types.Type) string {
	t = s.resolve(t)
	switch x := t.(type) {
	case *types.Alias:
		return s.sortOf(types.Unalias(x))
	case *types.Named:
		if st, ok := x.Underlying().(*types.Struct); ok {
			name := x.Origin().Obj().Name()
			if x.Obj().Pkg() != nil && x.Obj().Pkg() != s.pkg {
				// foreign struct (decimal.Decimal): modelled as Real
				if x.Obj().Pkg().Name() == "decimal" {
					return "Real"
				}
				return "Int"
			}
			if !s.sortSeen[name] {
				s.sortSeen[name] = true
				var fs []string
				for i := 0; i < st.NumFields(); i++ {
					f := st.Field(i)
					fs = append(fs, fmt.Sprintf("(%s_%s %s)", name, f.Name(), s.sortOf(f.Type())))
				}
				if len(fs) == 0 {
					fs = append(fs, fmt.Sprintf("(%s__empty Int)", name))
				}
				s.sortDecls = append(s.sortDecls, fmt.Sprintf("(declare-datatypes ((%s 0)) (((mk_%s %s))))", name, name, strings.Join(fs, " ")))
			}
			return name
		}
		return s.sortOf(x.Underlying())
	case *types.Basic:
		switch {
		case x.Info()&types.IsBoolean != 0:
			return "Bool"
		case x.Info()&types.IsInteger != 0:
			return "Int"
		case x.Info()&types.IsFloat != 0:
			return "Real"
		case x.Info()&types.IsString != 0:
			return "Int"
		case x.Kind() == types.UntypedNil:
			return "Int"
		}
		return "Int"
	case *types.Pointer:
		if s.isHeapPtr(x) {
			return "Int"
		}
		// pointer to a value: represented by the pointee value (in/out parameter)
		return s.sortOf(x.Elem())
	case *types.Slice:
		es := s.sortOf(x.Elem())
		name := "Slice_" + sanitize(es)
		if !s.sortSeen[name] {
			s.sortSeen[name] = true
			s.sortDecls = append(s.sortDecls, fmt.Sprintf("(declare-datatypes ((%s 0)) (((mk_%s (len_%s Int) (arr_%s (Array Int %s)) (nil_%s Bool)))))", name, name, name, name, es, name))
		}
		return name
	case *types.Array:
		return "(Array Int " + s.sortOf(x.Elem()) + ")"
	case *types.Struct:
		// anonymous struct: not supported, opaque
		return "Int"
	case *types.TypeParam:
		name := "TP_" + x.Obj().Name()
		if !s.sortSeen[name] {
			s.sortSeen[name] = true
			s.sortDecls = append(s.sortDecls, fmt.Sprintf("(declare-sort %s 0)", name))
		}
		return name
	case *types.Interface, *types.Signature, *types.Map, *types.Chan:
		return "Int"
	case *types.Tuple:
		return "Int"
	}
	return "Int"
}

func (s *SMT) zeroOf(t types.Type) string {
	t = s.resolve(t)
	switch x := t.(type) {
	case *types.Alias:
		return s.zeroOf(types.Unalias(x))
	case *types.Named:
		if st, ok := x.Underlying().(*types.Struct); ok {
			if x.Obj().Pkg() != nil && x.Obj().Pkg() != s.pkg {
				if x.Obj().Pkg().Name() == "decimal" {
					return "0.0"
				}
				return "0"
			}
			name := s.sortOf(x)
			var fs []string
			for i := 0; i < st.NumFields(); i++ {
				fs = append(fs, s.zeroOf(st.Field(i).Type()))
			}
			if len(fs) == 0 {
				fs = []string{"0"}
			}
			return "(mk_" + name + " " + strings.Join(fs, " ") + ")"
		}
		return s.zeroOf(x.Underlying())
	case *types.Basic:
		switch {
		case x.Info()&types.IsBoolean != 0:
			return "false"
		case x.Info()&types.IsFloat != 0:
			return "0.0"
		}
		return "0"
	case *types.Pointer:
		if s.isHeapPtr(x) {
			return "0"
		}
		return s.zeroOf(x.Elem())
	case *types.Slice:
		name := s.sortOf(x)
		return fmt.Sprintf("(mk_%s 0 ((as const (Array Int %s)) %s) true)", name, s.sortOf(x.Elem()), s.zeroOf(x.Elem()))
	case *types.Array:
		return fmt.Sprintf("((as const (Array Int %s)) %s)", s.sortOf(x.Elem()), s.zeroOf(x.Elem()))
	case *types.TypeParam:
		name := s.sortOf(x)
		z := "zero_" + name
		if !s.funSeen[z] {
			s.funSeen[z] = true
			s.addFun(z, fmt.Sprintf("(declare-const %s %s)", z, name))
		}
		return z
	}
	return "0"
}

// rangeFacts: well-typedness facts of a term of Go type t (integer ranges, len >= 0)
func (s *SMT) rangeFacts(term string, t types.Type, depth int) []string {
	t = s.resolve(t)
	var out []string
	switch x := t.Underlying().(type) {
	case *types.Basic:
		if lo, hi, ok := intRange(x); ok {
			out = append(out, fmt.Sprintf("(<= %s %s)", bigLit(lo), term), fmt.Sprintf("(<= %s %s)", term, bigLit(hi)))
		}
	case *types.Struct:
		if n, ok := types.Unalias(t).(*types.Named); ok && depth < 3 {
			if n.Obj().Pkg() != nil && n.Obj().Pkg() != s.pkg {
				return out
			}
			name := s.sortOf(t)
			for i := 0; i < x.NumFields(); i++ {
				f := x.Field(i)
				out = append(out, s.rangeFacts(fmt.Sprintf("(%s_%s %s)", name, f.Name(), term), f.Type(), depth+1)...)
			}
		}
	case *types.Slice:
		name := s.sortOf(t)
		out = append(out, fmt.Sprintf("(>= (len_%s %s) 0)", name, term))
		// a slice cannot have more than 2^56 elements (address space): len+small never overflows
		out = append(out, fmt.Sprintf("(<= (len_%s %s) 72057594037927936)", name, term))
		out = append(out, fmt.Sprintf("(=> (nil_%s %s) (= (len_%s %s) 0))", name, term, name, term))
	case *types.Pointer:
		if s.isHeapPtr(t) {
			out = append(out, fmt.Sprintf("(>= %s 0)", term))
		} else {
			out = append(out, s.rangeFacts(term, x.Elem(), depth+1)...)
		}
	}
	return out
}

func (s *SMT) declareFun(name, decl string) {
	if !s.funSeen[name] {
		s.funSeen[name] = true
		s.addFun(name, decl)
	}
}

func (s *SMT) addFun(name, decl string) {
	s.funDecls = append(s.funDecls, decl)
	s.funNames = append(s.funNames, name)
}

func (s *SMT) constLit(v constant.Value, t types.Type) (string, bool) {
	t = s.resolve(t)
	switch v.Kind() {
	case constant.Bool:
		if constant.BoolVal(v) {
			return "true", true
		}
		return "false", true
	case constant.Int:
		bi, ok := constant.Val(v).(*big.Int)
		if !ok {
			if i64, ok2 := constant.Val(v).(int64); ok2 {
				bi = big.NewInt(i64)
			} else {
				return "", false
			}
		}
		if isFloatType(t) {
			return ratLit(new(big.Rat).SetInt(bi)), true
		}
		return bigLit(bi), true
	case constant.Float:
		var r *big.Rat
		switch x := constant.Val(v).(type) {
		case *big.Rat:
			r = x
		case *big.Float:
			r, _ = x.Rat(nil)
		default:
			return "", false
		}
		if isIntType(t) {
			if r.IsInt() {
				return bigLit(r.Num()), true
			}
			return "", false
		}
		if isFloatType(t) {
			// a float64-typed constant is the float64 nearest to the exact value
			if b, ok := t.Underlying().(*types.Basic); ok && b.Kind() != types.UntypedFloat {
				f, _ := r.Float64()
				r2 := new(big.Rat)
				if r2.SetFloat64(f) != nil {
					r = r2
				}
			}
		}
		return ratLit(r), true
	}
	return "", false
}

func (s *SMT) Prelude() string {
	var b strings.Builder
	b.WriteString("(set-option :produce-models true)\n(set-logic ALL)\n")
	for _, d := range s.sortDecls {
		b.WriteString(d + "\n")
	}
	for _, d := range s.funDecls {
		b.WriteString(d + "\n")
	}
	for _, a := range s.axioms {
		b.WriteString("(assert " + a + ")\n")
	}
	return b.String()
}

// axiomSubject maps the registration name of an axiom to the symbol it constrains.
func axiomSubject(name string) string {
	switch {
	case strings.HasPrefix(name, "def_"):
		return name[4:]
	case name == "ax_posInf":
		return "G_posInf"
	case name == "ax_negInf":
		return "G_negInf"
	case name == "ax_sqrt":
		return "m_sqrt"
	case name == "ax_quant":
		return "quant"
	case strings.HasPrefix(name, "ax_i2f"):
		return "i2f"
	}
	return name
}

func smtTokens(text string, into map[string]bool) {
	start := -1
	for i := 0; i <= len(text); i++ {
		var c byte = ' '
		if i < len(text) {
			c = text[i]
		}
		if c == '(' || c == ')' || c == ' ' || c == '\n' || c == '\t' {
			if start >= 0 {
				into[text[start:i]] = true
				start = -1
			}
		} else if start < 0 {
			start = i
		}
	}
}

// PreludeFor renders only the declarations, definitions and axioms that the body
// (transitively) mentions; quantified axioms of unrelated theories make the solvers
// return unknown on goals that do not need them.
func (s *SMT) PreludeFor(body string) string {
	need := map[string]bool{}
	smtTokens(body, need)
	type entry struct {
		text    string
		defines string
		toks    map[string]bool
		isAxiom bool
	}
	var es []*entry
	for i, d := range s.funDecls {
		e := &entry{text: d, toks: map[string]bool{}}
		smtTokens(d, e.toks)
		f := strings.Fields(strings.NewReplacer("(", " ", ")", " ").Replace(d))
		if len(f) >= 2 && (f[0] == "declare-fun" || f[0] == "define-fun" || f[0] == "declare-const" || f[0] == "define-fun-rec") {
			e.defines = f[1]
		} else {
			e.isAxiom = true
			e.defines = s.funNames[i]
		}
		es = append(es, e)
	}
	used := make([]bool, len(es))
	for changed := true; changed; {
		changed = false
		for i, e := range es {
			if used[i] {
				continue
			}
			hit := false
			if e.isAxiom {
				// an axiom is included when the symbol it is about is in use
				hit = need[axiomSubject(e.defines)]
			} else if need[e.defines] {
				hit = true
			}
			if hit {
				used[i] = true
				changed = true
				for t := range e.toks {
					need[t] = true
				}
			}
		}
	}
	var b strings.Builder
	b.WriteString("(set-option :produce-models true)\n(set-logic ALL)\n")
	for _, d := range s.sortDecls {
		b.WriteString(d + "\n")
	}
	for i, e := range es {
		if used[i] {
			b.WriteString(e.text + "\n")
		}
	}
	for _, a := range s.axioms {
		b.WriteString("(assert " + a + ")\n")
	}
	return b.String()
}

func and(xs []string) string {
	var ys []string
	for _, x := range xs {
		if x != "true" && x != "" {
			ys = append(ys, x)
		}
	}
	if len(ys) == 0 {
		return "true"
	}
	if len(ys) == 1 {
		return ys[0]
	}
	return "(and " + strings.Join(ys, " ") + ")"
}

func or(xs []string) string {
	if len(xs) == 0 {
		return "false"
	}
	if len(xs) == 1 {
		return xs[0]
	}
	return "(or " + strings.Join(xs, " ") + ")"
}

func not(x string) string {
	if x == "true" {
		return "false"
	}
	if x == "false" {
		return "true"
	}
	if strings.HasPrefix(x, "(not ") && balanced(x[5:len(x)-1]) {
		return x[5 : len(x)-1]
	}
	return "(not " + x + ")"
}

func balanced(s string) bool {
	d := 0
	for _, c := range s {
		if c == '(' {
			d++
		} else if c == ')' {
			d--
			if d < 0 {
				return false
			}
		}
	}
	return d == 0
}

func sortedKeys[V any](m map[string]V) []string {
	var ks []string
	for k := range m {
		ks = append(ks, k)
	}
	sort.Strings(ks)
	return ks
}
