package main

import (
	"fmt"
	"golang.org/x/tools/go/packages"
)

func main() {
	cfg := &packages.Config{Mode: packages.LoadAllSyntax, Dir: "/repo", BuildFlags: []string{"-tags=verif"}}
	pkgs, err := packages.Load(cfg, ".")
	fmt.Println(len(pkgs), err)
	for _, p := range pkgs {
		fmt.Println(p.PkgPath, len(p.Syntax), p.Errors)
	}
}
