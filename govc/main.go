package main

import (
	"flag"
	"fmt"
	"go/types"
	"os"
	"sort"
	"strings"
)

type World struct {
	prog *Program
	smt  *SMT
	eff  *Effects
	res  []*FuncResult
}

func loadWorld(repo string) (*World, error) {
	os.MkdirAll("/verif/out", 0o755)
	prog, err := LoadProgram(repo)
	if err != nil {
		return nil, err
	}
	smt := NewSMT(prog.Pkg)
	eff := NewEffects(prog, smt)
	return &World{prog: prog, smt: smt, eff: eff}, nil
}

// instantiations of a generic function found in the package
func (w *World) instantiations(key string) []map[*types.TypeParam]types.Type {
	fd := w.prog.Funcs[key]
	obj, _ := w.prog.Info.Defs[fd.Name].(*types.Func)
	if obj == nil {
		return []map[*types.TypeParam]types.Type{nil}
	}
	sig := obj.Type().(*types.Signature)
	tps := sig.TypeParams()
	if tps == nil || tps.Len() == 0 {
		return []map[*types.TypeParam]types.Type{nil}
	}
	seen := map[string]bool{}
	var out []map[*types.TypeParam]types.Type
	for id, inst := range w.prog.Info.Instances {
		if w.prog.Info.Uses[id] == nil {
			continue
		}
		if f, ok := w.prog.Info.Uses[id].(*types.Func); !ok || f.Origin() != obj {
			continue
		}
		concrete := true
		var names []string
		m := map[*types.TypeParam]types.Type{}
		for i := 0; i < tps.Len() && i < inst.TypeArgs.Len(); i++ {
			t := inst.TypeArgs.At(i)
			if _, isTP := t.(*types.TypeParam); isTP {
				concrete = false
			}
			m[tps.At(i)] = t
			names = append(names, types.TypeString(t, func(*types.Package) string { return "" }))
		}
		if !concrete {
			continue
		}
		k := strings.Join(names, ",")
		if seen[k] {
			continue
		}
		seen[k] = true
		out = append(out, m)
	}
	if len(out) == 0 {
		return []map[*types.TypeParam]types.Type{nil}
	}
	sort.Slice(out, func(i, j int) bool { return instLabel(out[i]) < instLabel(out[j]) })
	return out
}

func instLabel(m map[*types.TypeParam]types.Type) string {
	if len(m) == 0 {
		return ""
	}
	var ns []string
	for _, t := range m {
		ns = append(ns, types.TypeString(t, func(*types.Package) string { return "" }))
	}
	sort.Strings(ns)
	return "[" + strings.Join(ns, ",") + "]"
}

// generate obligations for the selected contracts
func (w *World) generate(sel func(fc *FuncContract) bool) {
	for _, fc := range w.prog.C.Funcs {
		if !sel(fc) || fc.Trusted || fc.FrameOnly {
			continue
		}
		for _, inst := range w.instantiations(fc.Name) {
			name := fc.Key() + instLabel(inst)
			r := VerifyFunc(w.prog, w.smt, w.eff, fc.Name, fc, inst, name)
			w.res = append(w.res, r)
		}
	}
}

// generateLemmas: closed formulas proved once (obligation lemma:NAME)
func (w *World) generateLemmas(sel func(props []string, tier string) bool) {
	for _, cl := range w.prog.C.Lemmas {
		tier := cl.Loop
		if tier == "" {
			tier = "A"
		}
		if !sel(cl.Props, tier) {
			continue
		}
		fv := &FnV{prog: w.prog, smt: w.smt, eff: w.eff, key: "lemma:" + cl.Label, tags: map[string]bool{}, counters: map[string]int{},
			inlined: map[string]bool{}, calledContracts: map[string]bool{}, instName: "lemma:" + cl.Label}
		st := &State{vars: map[types.Object]Val{}, heap: map[string]string{}}
		g := fv.evalWithEnv(st, cl, map[string]Val{}, map[string]Val{}, st)
		vc := &VC{Name: "lemma:" + cl.Label, Func: "lemma:" + cl.Label, Kind: "lemma", Goal: g, fv: fv, Props: cl.Props, Tier: tier, ClauseText: cl.Text, Pos: fmt.Sprintf("contracts_verif.go:%d", cl.Line)}
		fv.vcs = append(fv.vcs, vc)
		res := &FuncResult{Key: "lemma:" + cl.Label, Inst: "lemma:" + cl.Label, VCs: fv.vcs, Outside: fv.outside}
		w.res = append(w.res, res)
	}
}

func main() {
	if len(os.Args) < 2 {
		fmt.Println("usage: govc verify|check|frame|dump ...")
		os.Exit(2)
	}
	switch os.Args[1] {
	case "verify":
		cmdVerify(os.Args[2:])
	case "check":
		cmdCheck(os.Args[2:])
	default:
		fmt.Println("unknown command", os.Args[1])
		os.Exit(2)
	}
}

func cmdVerify(args []string) {
	fs := flag.NewFlagSet("verify", flag.ExitOnError)
	fn := fs.String("func", "", "only this function (contract key)")
	prop := fs.String("prop", "", "only this property")
	repo := fs.String("repo", "/repo", "repository")
	timeout := fs.Int("timeout", 20, "solver timeout (s)")
	verbose := fs.Bool("v", false, "list all obligations")
	dumpFailed := fs.Bool("show", false, "print failing SMT files' names")
	fs.Parse(args)
	w, err := loadWorld(*repo)
	if err != nil {
		fmt.Println("LOAD ERROR:", err)
		os.Exit(2)
	}
	w.generate(func(fc *FuncContract) bool {
		if *fn != "" && fc.Key() != *fn && fc.Name != *fn {
			return false
		}
		if *prop != "" {
			ok := false
			for _, p := range fc.Props {
				if p == *prop {
					ok = true
				}
			}
			return ok
		}
		return true
	})
	w.generateLemmas(func(props []string, tier string) bool {
		if *fn != "" {
			return false
		}
		return *prop == "" || hasProp(props, *prop)
	})
	var all []*VC
	for _, r := range w.res {
		all = append(all, r.VCs...)
	}
	prelude := w.smt.Prelude()
	solveAll(all, prelude, "/verif/out/smt", *timeout, 0, 16, false)
	nOK, nBad := 0, 0
	for _, r := range w.res {
		fmt.Printf("== %s  (%d obligations) inlined=%v tags=%v\n", r.Inst, len(r.VCs), r.Inlined, r.Tags)
		for _, o := range r.Outside {
			fmt.Println("   OUTSIDE-SUBSET:", o)
		}
		for _, vc := range r.VCs {
			ok := vc.Status == "unsat"
			if vc.MustFail {
				ok = vc.Status != "unsat"
			}
			if ok {
				nOK++
			} else {
				nBad++
			}
			if !ok || *verbose {
				mark := "ok  "
				if !ok {
					mark = "FAIL"
				}
				fmt.Printf("   %s %-70s %-8s %-7s %.2fs %s\n", mark, vc.Name, vc.Status, vc.Solver, vc.TimeS, vc.Pos)
				if !ok && *dumpFailed {
					fmt.Println("        ", vcFileName("/verif/out/smt", vc))
				}
			}
		}
	}
	fmt.Printf("discharged %d, failed %d\n", nOK, nBad)
	if nBad > 0 {
		os.Exit(1)
	}
}

