package main

import (
	"context"
	"encoding/json"
	"regexp"
	"sync"
	"flag"
	"fmt"
	"go/types"
	"os"
	"sort"
	"strings"
)

type World struct {
	prog *Program
	smt  *SMT
	eff  *Effects
	res  []*FuncResult

	retAlias map[string]bool // functions whose result may alias a slice argument (frame.noretain)
}

func loadWorld(repo string) (*World, error) {
	os.MkdirAll(outRoot, 0o755)
	prog, err := LoadProgram(repo)
	if err != nil {
		return nil, err
	}
	smt := NewSMT(prog.Pkg)
	eff := NewEffects(prog, smt)
	return &World{prog: prog, smt: smt, eff: eff}, nil
}

// instantiations of a generic function found in the package
func (w *World) instantiations(key string) []map[*types.TypeParam]types.Type {
	fd := w.prog.Funcs[key]
	obj, _ := w.prog.Info.Defs[fd.Name].(*types.Func)
	if obj == nil {
		return []map[*types.TypeParam]types.Type{nil}
	}
	sig := obj.Type().(*types.Signature)
	tps := sig.TypeParams()
	if tps == nil || tps.Len() == 0 {
		return []map[*types.TypeParam]types.Type{nil}
	}
	seen := map[string]bool{}
	var out []map[*types.TypeParam]types.Type
	for id, inst := range w.prog.Info.Instances {
		if w.prog.Info.Uses[id] == nil {
			continue
		}
		if f, ok := w.prog.Info.Uses[id].(*types.Func); !ok || f.Origin() != obj {
			continue
		}
		concrete := true
		var names []string
		m := map[*types.TypeParam]types.Type{}
		for i := 0; i < tps.Len() && i < inst.TypeArgs.Len(); i++ {
			t := inst.TypeArgs.At(i)
			if _, isTP := t.(*types.TypeParam); isTP {
				concrete = false
			}
			m[tps.At(i)] = t
			names = append(names, types.TypeString(t, func(*types.Package) string { return "" }))
		}
		if !concrete {
			continue
		}
		k := strings.Join(names, ",")
		if seen[k] {
			continue
		}
		seen[k] = true
		out = append(out, m)
	}
	if len(out) == 0 {
		return []map[*types.TypeParam]types.Type{nil}
	}
	sort.Slice(out, func(i, j int) bool { return instLabel(out[i]) < instLabel(out[j]) })
	return out
}

func instLabel(m map[*types.TypeParam]types.Type) string {
	if len(m) == 0 {
		return ""
	}
	var ns []string
	for _, t := range m {
		ns = append(ns, types.TypeString(t, func(*types.Package) string { return "" }))
	}
	sort.Strings(ns)
	return "[" + strings.Join(ns, ",") + "]"
}

// generate obligations for the selected contracts
func (w *World) generate(sel func(fc *FuncContract) bool) {
	for _, fc := range w.prog.C.Funcs {
		if !sel(fc) || fc.Trusted || fc.FrameOnly {
			continue
		}
		if reason, det := w.prog.Detached[fc.Key()]; det {
			// the contract no longer attaches to the source: one failed obligation, no input
			fv := &FnV{prog: w.prog, smt: w.smt, eff: w.eff, key: fc.Name, fc: fc, tags: map[string]bool{}, counters: map[string]int{},
				inlined: map[string]bool{}, calledContracts: map[string]bool{}, instName: fc.Key()}
			vc := &VC{Name: fc.Key() + "#contract.attach", Func: fc.Name, Kind: "contract.attach", Goal: "false", fv: fv, Props: fc.Props, Tier: fc.Tier,
				Status: "detached", Solver: "type-checker", Output: "the contract of " + fc.Key() + " no longer type-checks against the source: " + reason,
				ClauseText: "every clause of the contract must type-check against the function it annotates"}
			w.res = append(w.res, &FuncResult{Key: fc.Name, Inst: fc.Key(), VCs: []*VC{vc}, Contract: fc})
			continue
		}
		for _, inst := range w.instantiations(fc.Name) {
			name := fc.Key() + instLabel(inst)
			r := VerifyFunc(w.prog, w.smt, w.eff, fc.Name, fc, inst, name)
			w.res = append(w.res, r)
		}
	}
}

// generateLemmas: closed formulas proved once (obligation lemma:NAME)
func (w *World) generateLemmas(sel func(props []string, tier string) bool) {
	for _, cl := range w.prog.C.Lemmas {
		tier := cl.Loop
		if tier == "" {
			tier = "A"
		}
		if !sel(cl.Props, tier) {
			continue
		}
		fv := &FnV{prog: w.prog, smt: w.smt, eff: w.eff, key: "lemma:" + cl.Label, tags: map[string]bool{}, counters: map[string]int{},
			inlined: map[string]bool{}, calledContracts: map[string]bool{}, instName: "lemma:" + cl.Label}
		st := &State{vars: map[types.Object]Val{}, heap: map[string]string{}}
		g := fv.evalWithEnv(st, cl, map[string]Val{}, map[string]Val{}, st)
		vc := &VC{Name: "lemma:" + cl.Label, Func: "lemma:" + cl.Label, Kind: "lemma", Goal: g, fv: fv, Props: cl.Props, Tier: tier, ClauseText: cl.Text, Pos: fmt.Sprintf("contracts_verif.go:%d", cl.Line)}
		fv.vcs = append(fv.vcs, vc)
		res := &FuncResult{Key: "lemma:" + cl.Label, Inst: "lemma:" + cl.Label, VCs: fv.vcs, Outside: fv.outside}
		w.res = append(w.res, res)
	}
}

func main() {
	if len(os.Args) < 2 {
		fmt.Println("usage: govc verify|check|frame|dump ...")
		os.Exit(2)
	}
	switch os.Args[1] {
	case "verify":
		cmdVerify(os.Args[2:])
	case "check":
		cmdCheck(os.Args[2:])
	case "sweep":
		cmdSweep(os.Args[2:])
	case "replay":
		cmdReplay(os.Args[2:])
	case "effects":
		// debug aid: the write-effect summary of the named functions
		w, err := loadWorld("/repo")
		if err != nil {
			fmt.Println("LOAD ERROR:", err)
			os.Exit(2)
		}
		for _, k := range os.Args[2:] {
			if fe := w.eff.F[k]; fe != nil {
				fmt.Printf("%s: writes=%v params=%v allocates=%v loop=%v stmts=%d\n", k, fe.sortedWrites(), fe.ParamWrites, fe.Allocates, fe.HasLoop, fe.NStmts)
			} else {
				fmt.Println(k, ": no summary")
			}
		}
	default:
		fmt.Println("unknown command", os.Args[1])
		os.Exit(2)
	}
}

func cmdVerify(args []string) {
	fs := flag.NewFlagSet("verify", flag.ExitOnError)
	fn := fs.String("func", "", "only this function (contract key)")
	prop := fs.String("prop", "", "only this property")
	repo := fs.String("repo", "/repo", "repository")
	timeout := fs.Int("timeout", 20, "solver timeout (s)")
	verbose := fs.Bool("v", false, "list all obligations")
	dumpFailed := fs.Bool("show", false, "print failing SMT files' names")
	fs.Parse(args)
	w, err := loadWorld(*repo)
	if err != nil {
		fmt.Println("LOAD ERROR:", err)
		os.Exit(2)
	}
	w.generate(func(fc *FuncContract) bool {
		if *fn != "" && fc.Key() != *fn && fc.Name != *fn {
			return false
		}
		if *prop != "" {
			ok := false
			for _, p := range fc.Props {
				if p == *prop {
					ok = true
				}
			}
			return ok
		}
		return true
	})
	w.generateLemmas(func(props []string, tier string) bool {
		if *fn != "" {
			return false
		}
		return *prop == "" || hasProp(props, *prop)
	})
	var all []*VC
	for _, r := range w.res {
		all = append(all, r.VCs...)
	}
	prelude := w.smt.Prelude()
	altWorld = w
	solveAll(all, prelude, outRoot+"/smt", *timeout, 0, 16, false)
	nOK, nBad := 0, 0
	for _, r := range w.res {
		fmt.Printf("== %s  (%d obligations) inlined=%v tags=%v\n", r.Inst, len(r.VCs), r.Inlined, r.Tags)
		for _, o := range r.Outside {
			fmt.Println("   OUTSIDE-SUBSET:", o)
		}
		for _, vc := range r.VCs {
			ok := vc.Status == "unsat"
			if vc.MustFail {
				ok = vc.Status != "unsat"
			}
			if ok {
				nOK++
			} else {
				nBad++
			}
			if !ok || *verbose {
				mark := "ok  "
				if !ok {
					mark = "FAIL"
				}
				fmt.Printf("   %s %-70s %-8s %-7s %.2fs %s\n", mark, vc.Name, vc.Status, vc.Solver, vc.TimeS, vc.Pos)
				if !ok && *dumpFailed {
					fmt.Println("        ", vcFileName(outRoot+"/smt", vc))
				}
			}
		}
	}
	fmt.Printf("discharged %d, failed %d\n", nOK, nBad)
	if nBad > 0 {
		os.Exit(1)
	}
}


// cmdSweep: zero-annotation safety sweep.  Every function without a contract is verified
// against the empty contract (safety obligations only); the ones that discharge completely
// are printed as contract stubs for the C03 section of the contracts file.
func cmdSweep(args []string) {
	w, err := loadWorld("/repo")
	if err != nil {
		fmt.Println("LOAD ERROR:", err)
		os.Exit(2)
	}
	have := map[string]bool{}
	for _, fc := range w.prog.C.Funcs {
		have[fc.Name] = true
	}
	var keys []string
	for k := range w.prog.Funcs {
		if !have[k] && !strings.HasPrefix(k, "Test") && !strings.HasPrefix(k, "Benchmark") {
			keys = append(keys, k)
		}
	}
	sort.Strings(keys)
	type item struct {
		key string
		res []*FuncResult
	}
	var items []item
	var all []*VC
	for _, k := range keys {
		fd := w.prog.Funcs[k]
		if strings.HasSuffix(w.prog.Fset.Position(fd.Pos()).Filename, "_test.go") {
			continue
		}
		fc := &FuncContract{Name: k, Loops: map[string]*LoopContract{}, Tier: "A", Arith: "wrap", PanicFree: true, Props: []string{"C03"}}
		it := item{key: k}
		func() {
			defer func() {
				if r := recover(); r != nil {
					fmt.Printf("// %s: generator panic: %v\n", k, r)
					it.res = nil
				}
			}()
			for _, inst := range w.instantiations(k) {
				r := VerifyFunc(w.prog, w.smt, w.eff, k, fc, inst, k+instLabel(inst))
				it.res = append(it.res, r)
				all = append(all, r.VCs...)
			}
		}()
		items = append(items, it)
	}
	_ = all
	// one batched query per function: all safety obligations at once
	os.MkdirAll(outRoot+"/sweep", 0o755)
	type job struct {
		it  *item
		ok  bool
		n   int
		why string
	}
	jobs := make([]*job, len(items))
	var wg sync.WaitGroup
	sem := make(chan bool, 16)
	for i := range items {
		j := &job{it: &items[i], ok: len(items[i].res) > 0}
		jobs[i] = j
		for _, r := range j.it.res {
			if len(r.Outside) > 0 {
				j.ok = false
				j.why = "outside-subset: " + r.Outside[0]
			}
		}
		if !j.ok {
			continue
		}
		wg.Add(1)
		go func(j *job) {
			defer wg.Done()
			sem <- true
			defer func() { <-sem }()
			for ri, r := range j.it.res {
				var vcs []*VC
				for _, vc := range r.VCs {
					if !vc.MustFail {
						vcs = append(vcs, vc)
					}
				}
				j.n += len(vcs)
				if len(vcs) == 0 {
					continue
				}
				var body strings.Builder
				fv := vcs[0].fv
				for _, d := range fv.decls {
					body.WriteString(d + "\n")
				}
				var alts []string
				for _, vc := range vcs {
					alts = append(alts, "(and "+strings.Join(append(append([]string{"true"}, vc.Hyps...), not(vc.Goal)), " ")+")")
				}
				body.WriteString("(assert (or " + strings.Join(alts, "\n  ") + "))\n(check-sat)\n")
				smtMu.RLock()
				text := fv.smt.PreludeFor(body.String()) + body.String()
				smtMu.RUnlock()
				file := fmt.Sprintf(outRoot+"/sweep/%s_%d.smt2", sanitizeFile(j.it.key), ri)
				os.WriteFile(file, []byte(text), 0o644)
				res := runSolver(context.Background(), solvers[0], file, 10, 0)
				if res.status != "unsat" {
					j.ok = false
					j.why = "batched safety query: " + res.status
				}
			}
		}(j)
	}
	wg.Wait()
	for _, j := range jobs {
		if j.ok {
			fmt.Printf("//@ func %s\n//@   props C03\n//@   panicfree\n\n", j.it.key)
		} else {
			fmt.Printf("// not safe without a contract: %s (%s)\n", j.it.key, j.why)
		}
	}
}

// cmdReplay re-runs the replay recorded in a violation file against /repo's current tree.
func cmdReplay(args []string) {
	if len(args) < 1 {
		fmt.Println("usage: govc replay <replay.json>")
		os.Exit(2)
	}
	b, err := os.ReadFile(args[0])
	if err != nil {
		fmt.Println(err)
		os.Exit(2)
	}
	var rec map[string]any
	if err := json.Unmarshal(b, &rec); err != nil {
		fmt.Println(err)
		os.Exit(2)
	}
	fmt.Printf("obligation: %v\nproperty: %v\nstatus: %v (%v)\n", rec["obligation"], rec["property"], rec["status"], rec["solver"])
	if c, ok := rec["clause"]; ok && c != "" {
		fmt.Printf("clause: %v\n", c)
	}
	body, ok := rec["replay_test"].(string)
	if !ok || body == "" {
		fmt.Println("no replayable input was recorded for this obligation (no-failing-input-found); solver output / offending sites:")
		for _, k := range []string{"solver_output", "detail", "sites", "reason", "failing_input", "replay_note"} {
			if v, ok := rec[k]; ok {
				fmt.Printf("%s: %v\n", k, v)
			}
		}
		os.Exit(1)
	}
	w, err := loadWorld("/repo")
	if err != nil {
		fmt.Println("LOAD ERROR:", err)
		os.Exit(2)
	}
	name := "VerifReplayAgain"
	body = regexp.MustCompile(`VERIF-RESULT VerifReplay[0-9]+`).ReplaceAllString(body, "VERIF-RESULT "+name)
	verd, out := runOverlayTests(w, []overlayTest{{Name: name, Body: body}}, outRoot+"/replay_again")
	v := verd[name]
	fmt.Printf("inputs: %v\nverdict on the current tree: %s\n", rec["replay_inputs"], v)
	if v == "error" {
		fmt.Println(firstLines(out, 30))
	}
	if v == "fail" || v == "panic" || v == "overflow" {
		os.Exit(1)
	}
}

// outRoot: scratch directory of a run (VERIF_OUT lets mutant scoring run beside a normal check)
var outRoot = func() string {
	if d := os.Getenv("VERIF_OUT"); d != "" {
		return d
	}
	return "/verif/out"
}()
