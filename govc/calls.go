package main

import (
	"fmt"
	"go/ast"
	"go/token"
	"go/types"
	"strings"
)

type argInfo struct {
	val       Val
	writeback func(st *State, v Val)
	expr      ast.Expr
}

func (fv *FnV) calleeObj(fun ast.Expr) types.Object {
	switch x := ast.Unparen(fun).(type) {
	case *ast.Ident:
		return fv.prog.Info.Uses[x]
	case *ast.SelectorExpr:
		return fv.prog.Info.Uses[x.Sel]
	case *ast.IndexExpr:
		return fv.calleeObj(x.X)
	case *ast.IndexListExpr:
		return fv.calleeObj(x.X)
	}
	return nil
}

func (fv *FnV) calleeIdent(fun ast.Expr) *ast.Ident {
	switch x := ast.Unparen(fun).(type) {
	case *ast.Ident:
		return x
	case *ast.SelectorExpr:
		return x.Sel
	case *ast.IndexExpr:
		return fv.calleeIdent(x.X)
	case *ast.IndexListExpr:
		return fv.calleeIdent(x.X)
	}
	return nil
}

func (fv *FnV) evalCall(st *State, call *ast.CallExpr) []Val {
	info := fv.prog.Info
	// conversion
	if tv, ok := info.Types[call.Fun]; ok && tv.IsType() {
		return []Val{fv.evalConversion(st, call, fv.smt.resolve(tv.Type))}
	}
	obj := fv.calleeObj(call.Fun)
	switch o := obj.(type) {
	case *types.Builtin:
		return fv.evalBuiltin(st, call, o.Name())
	case *types.Func:
		if o.Pkg() != nil && o.Pkg() != fv.prog.Pkg {
			return fv.evalExternal(st, call, o)
		}
		key, ok := fv.prog.FuncObj[o.Origin()]
		if !ok {
			fv.unsupported(call, "call of unknown function "+o.Name())
			return fv.havocResults(st, o.Type().(*types.Signature))
		}
		if strings.HasPrefix(key, "spec:") {
			return []Val{fv.evalSpecCall(st, call, key[5:], o)}
		}
		return fv.callUser(st, call, key, o)
	case *types.Var:
		// call of a function value (callback): uninterpreted, assumed pure
		sig, _ := o.Type().Underlying().(*types.Signature)
		var vals []Val
		for _, a := range call.Args {
			v := fv.eval(st, a)
			vals = append(vals, v)
			fv.havocPointee(st, v)
		}
		if len(fv.frames) == 1 && !fv.spec {
			// remembered for call-anchored asserts (arg0, arg1, ...) on the callback
			if fv.callArgs == nil {
				fv.callArgs = map[*ast.CallExpr][]Val{}
			}
			fv.callArgs[call] = vals
		}
		fv.tag("callbacks-pure")
		if sig == nil {
			return nil
		}
		return fv.havocResults(st, sig)
	}
	// field holding a function value etc.
	if tv, ok := info.Types[call.Fun]; ok {
		if sig, ok := tv.Type.Underlying().(*types.Signature); ok {
			for _, a := range call.Args {
				fv.eval(st, a)
			}
			fv.tag("callbacks-pure")
			return fv.havocResults(st, sig)
		}
	}
	fv.unsupported(call, "call "+exprString(fv.prog.Fset, call.Fun))
	return nil
}

// havocPointee: a callback may write the object a heap pointer argument refers to
func (fv *FnV) havocPointee(st *State, v Val) {
	t := fv.smt.resolve(v.Ty)
	pt, ok := t.Underlying().(*types.Pointer)
	if !ok || !fv.smt.isHeapPtr(pt) {
		return
	}
	stt, ok := pt.Elem().Underlying().(*types.Struct)
	if !ok {
		return
	}
	for i := 0; i < stt.NumFields(); i++ {
		key := fv.heapKey(pt.Elem(), stt.Field(i).Name())
		fv.heapGet(st, key)
		st.heap[key] = fv.fresh("H_"+key, fv.heapSort(key))
	}
}

func (fv *FnV) havocResults(st *State, sig *types.Signature) []Val {
	var out []Val
	for i := 0; i < sig.Results().Len(); i++ {
		out = append(out, fv.freshVal("r", sig.Results().At(i).Type(), st))
	}
	return out
}

func (fv *FnV) evalConversion(st *State, call *ast.CallExpr, to types.Type) Val {
	v := fv.eval(st, call.Args[0])
	from := fv.smt.resolve(v.Ty)
	switch {
	case isIntType(to) && isIntType(from):
		if !fv.spec {
			lo, hi, _ := intRange(to)
			flo, fhi, ok := intRange(from)
			if ok && (flo.Cmp(lo) < 0 || fhi.Cmp(hi) > 0) {
				if fv.wrap {
					return v
				}
				fv.oblige(st, "safe.convert", exprString(fv.prog.Fset, call), fmt.Sprintf("(and (<= %s %s) (<= %s %s))", bigLit(lo), v.T, v.T, bigLit(hi)), call, nil)
			}
		}
		return Val{v.T, to}
	case isFloatType(to) && isIntType(from):
		if _, ok := parseIntLit(v.T); ok || fv.spec {
			return Val{fmt.Sprintf("(to_real %s)", v.T), to}
		}
		// int -> float64 rounds to nearest: uninterpreted i2f with the axioms below
		// (exact up to 2^53, monotone, relative error 2^-53)
		fv.tag("i2f-axioms")
		if fv.i2fCache == nil {
			fv.i2fCache = map[string]string{}
		}
		if f, ok := fv.i2fCache[v.T]; ok {
			return Val{f, to}
		}
		x := fv.name("iv", v.T, "Int")
		// cut: when the operand is provably within +-2^53 the conversion is exact
		if fv.provable(st, fmt.Sprintf("(and (<= (- 9007199254740992) %s) (<= %s 9007199254740992))", x, x)) {
			f := fmt.Sprintf("(to_real %s)", x)
			fv.i2fCache[v.T] = f
			return Val{f, to}
		}
		f := fv.fresh("i2f", "Real")
		// Ground facts for this operand: exact up to 2^53, sign-preserving, relative error
		// at most 2^-53, monotone w.r.t. earlier conversions.
		fv.decls = append(fv.decls, fmt.Sprintf("(assert (=> (and (<= (- 9007199254740992) %s) (<= %s 9007199254740992)) (= %s (to_real %s))))", x, x, f, x))
		fv.decls = append(fv.decls, fmt.Sprintf("(assert (and (=> (>= %s 0) (>= %s 0.0)) (=> (<= %s 0) (<= %s 0.0)) (=> (>= %s 1) (>= %s 1.0)) (=> (<= %s (- 1)) (<= %s (- 1.0)))))", x, f, x, f, x, f, x, f))
		fv.decls = append(fv.decls, fmt.Sprintf("(assert (and (<= (* 9007199254740992.0 (- %s (to_real %s))) (ite (>= %s 0) (to_real %s) (to_real (- %s)))) (<= (* 9007199254740992.0 (- (to_real %s) %s)) (ite (>= %s 0) (to_real %s) (to_real (- %s))))))", f, x, x, x, x, x, f, x, x, x))
		if len(fv.i2fList) < 10 {
			for _, pr := range fv.i2fList {
				fv.decls = append(fv.decls, fmt.Sprintf("(assert (and (=> (<= %s %s) (<= %s %s)) (=> (<= %s %s) (<= %s %s))))", pr[0], x, pr[1], f, x, pr[0], f, pr[1]))
			}
		}
		fv.i2fList = append(fv.i2fList, [2]string{x, f})
		fv.i2fCache[v.T] = f
		return Val{f, to}
	case isIntType(to) && isFloatType(from):
		t := fv.name("f", v.T, "Real")
		r := fv.roundInt(t, "trunc")
		if it, ok := fv.intOf[v.T]; ok {
			// the operand is an integer-valued float produced by Floor/Ceil/Round/Trunc
			r = it
		}
		r = fv.name("tr", r, "Int")
		if !fv.spec && !fv.noF2I {
			lo, hi, _ := intRange(to)
			fv.oblige(st, "safe.f2i", exprString(fv.prog.Fset, call), fmt.Sprintf("(and (<= %s %s) (<= %s %s))", bigLit(lo), r, r, bigLit(hi)), call, nil)
		}
		return Val{r, to}
	case isFloatType(to) && isFloatType(from):
		return Val{v.T, to}
	}
	// named slice / struct / pointer conversions keep the representation
	if fv.smt.sortOf(to) == fv.smt.sortOf(from) {
		return Val{v.T, to}
	}
	fv.unsupported(call, "conversion "+from.String()+" -> "+to.String())
	return Val{fv.fresh("conv", fv.smt.sortOf(to)), to}
}

// roundInt returns an Int term for floor/ceil/trunc/round(x).  In code mode it is a fresh
// constant tied to x by linear facts (easier for the solvers than to_int inside nonlinear
// goals); in specifications it is the corresponding to_int expression.
func (fv *FnV) roundInt(x, mode string) string {
	expr := ""
	switch mode {
	case "floor":
		expr = fmt.Sprintf("(to_int %s)", x)
	case "ceil":
		expr = fmt.Sprintf("(- (to_int (- %s)))", x)
	case "trunc":
		expr = fmt.Sprintf("(ite (>= %s 0.0) (to_int %s) (- (to_int (- %s))))", x, x, x)
	case "round":
		expr = fmt.Sprintf("(ite (>= %s 0.0) (to_int (+ %s 0.5)) (- (to_int (+ (- %s) 0.5))))", x, x, x)
	}
	if fv.spec || fv.noName {
		return expr
	}
	if fv.rnd == nil {
		fv.rnd = map[string]string{}
	}
	key := mode + ":" + x
	if k, ok := fv.rnd[key]; ok {
		return k
	}
	k := fv.fresh("ri", "Int")
	kr := "(to_real " + k + ")"
	var fact string
	switch mode {
	case "floor":
		fact = fmt.Sprintf("(and (<= %s %s) (< %s (+ %s 1.0)))", kr, x, x, kr)
	case "ceil":
		fact = fmt.Sprintf("(and (< (- %s 1.0) %s) (<= %s %s))", kr, x, x, kr)
	case "trunc":
		fact = fmt.Sprintf("(ite (>= %s 0.0) (and (<= %s %s) (< %s (+ %s 1.0))) (and (< (- %s 1.0) %s) (<= %s %s)))", x, kr, x, x, kr, kr, x, x, kr)
	case "round":
		fact = fmt.Sprintf("(ite (>= %s 0.0) (and (<= (- %s 0.5) %s) (< %s (+ %s 0.5))) (and (< (- %s 0.5) %s) (<= %s (+ %s 0.5))))", x, kr, x, x, kr, kr, x, x, kr)
	}
	fv.decls = append(fv.decls, "(assert "+fact+")")
	fv.rnd[key] = k
	return k
}

func (fv *FnV) declareQuant() {
	fv.uninterp("quant", []string{"Real"}, "Int")
	fv.smt.declareFun("ax_quant", "(assert (forall ((x Real)) (! (and (<= (- x 0.5) (to_real (quant x))) (<= (to_real (quant x)) (+ x 0.5)) (=> (is_int x) (= (to_real (quant x)) x))) :pattern ((quant x)))))")
}

func (fv *FnV) declareI2F() {
	fv.tag("i2f-axioms")
	fv.uninterp("i2f", []string{"Int"}, "Real")
	fv.smt.declareFun("ax_i2f_mono", "(assert (forall ((x Int) (y Int)) (! (=> (<= x y) (<= (i2f x) (i2f y))) :pattern ((i2f x) (i2f y)))))")
	fv.smt.declareFun("ax_i2f_err", "(assert (forall ((x Int)) (! (and (<= (* 9007199254740992.0 (- (i2f x) (to_real x))) (ite (>= x 0) (to_real x) (to_real (- x)))) (<= (* 9007199254740992.0 (- (to_real x) (i2f x))) (ite (>= x 0) (to_real x) (to_real (- x))))) :pattern ((i2f x)))))")
}

func (fv *FnV) evalBuiltin(st *State, call *ast.CallExpr, name string) []Val {
	intT := types.Type(types.Typ[types.Int])
	switch name {
	case "len":
		v := fv.eval(st, call.Args[0])
		t := fv.smt.resolve(v.Ty)
		switch u := t.Underlying().(type) {
		case *types.Slice:
			_, lenT, _, _ := fv.sliceParts(v)
			return []Val{{lenT, intT}}
		case *types.Array:
			return []Val{{fmt.Sprintf("%d", u.Len()), intT}}
		}
		fv.unsupported(call, "len of "+t.String())
		return []Val{{fv.fresh("len", "Int"), intT}}
	case "cap":
		v := fv.eval(st, call.Args[0])
		_, lenT, _, _ := fv.sliceParts(v)
		c := fv.fresh("cap", "Int")
		st.assume(fmt.Sprintf("(>= %s %s)", c, lenT))
		fv.tag("capacity-unmodelled")
		return []Val{{c, intT}}
	case "make":
		t := fv.typeOf(call.Args[0])
		sl, ok := t.Underlying().(*types.Slice)
		if !ok {
			fv.unsupported(call, "make of "+t.String())
			return []Val{{fv.fresh("mk", fv.smt.sortOf(t)), t}}
		}
		n := fv.eval(st, call.Args[1])
		fv.oblige(st, "safe.makelen", exprString(fv.prog.Fset, call), fmt.Sprintf("(>= %s 0)", n.T), call, nil)
		if len(call.Args) > 2 {
			c := fv.eval(st, call.Args[2])
			fv.oblige(st, "safe.makecap", exprString(fv.prog.Fset, call), fmt.Sprintf("(>= %s %s)", c.T, n.T), call, nil)
		}
		es := fv.smt.sortOf(sl.Elem())
		return []Val{fv.mkSlice(t, n.T, fmt.Sprintf("((as const (Array Int %s)) %s)", es, fv.smt.zeroOf(sl.Elem())), "false")}
	case "new":
		t := fv.typeOf(call.Args[0])
		if fv.smt.isHeapStruct(t) {
			return []Val{fv.allocStruct(st, &ast.CompositeLit{}, t)}
		}
		return []Val{{fv.smt.zeroOf(t), types.NewPointer(t)}}
	case "append":
		s := fv.eval(st, call.Args[0])
		t := fv.smt.resolve(s.Ty)
		if isNilVal(s) {
			t = fv.typeOf(call)
			s = Val{fv.smt.zeroOf(t), t}
		}
		sl := t.Underlying().(*types.Slice)
		_, lenT, arrT, nilT := fv.sliceParts(s)
		if call.Ellipsis != token.NoPos {
			o := fv.eval(st, call.Args[1])
			o = fv.nameVal("app", Val{o.T, t})
			_, olen, oarr, _ := fv.sliceParts(o)
			es := fv.smt.sortOf(sl.Elem())
			b := fv.fresh("cat", "(Array Int "+es+")")
			lenT = fv.name("n", lenT, "Int")
			st.assume(fmt.Sprintf("(forall ((j!q Int)) (! (and (=> (and (<= 0 j!q) (< j!q %s)) (= (select %s j!q) (select %s j!q))) (=> (and (<= %s j!q) (< j!q (+ %s %s))) (= (select %s j!q) (select %s (- j!q %s))))) :pattern ((select %s j!q))))",
				lenT, b, arrT, lenT, lenT, olen, b, oarr, lenT, b))
			return []Val{fv.mkSlice(t, fmt.Sprintf("(+ %s %s)", lenT, olen), b, fmt.Sprintf("(and %s (= %s 0))", nilT, olen))}
		}
		lenT = fv.name("n", lenT, "Int")
		cur := arrT
		for i, a := range call.Args[1:] {
			v := fv.evalAs(st, a, sl.Elem())
			idx := lenT
			if i > 0 {
				idx = fmt.Sprintf("(+ %s %d)", lenT, i)
			}
			cur = fmt.Sprintf("(store %s %s %s)", cur, idx, v.T)
		}
		k := len(call.Args) - 1
		if k == 0 {
			return []Val{s}
		}
		return []Val{fv.nameVal("app", fv.mkSlice(t, fmt.Sprintf("(+ %s %d)", lenT, k), cur, "false"))}
	case "copy":
		// copy(dst, src): dst is a slice expression on an lvalue (or an lvalue)
		return []Val{fv.evalCopy(st, call)}
	case "panic":
		for _, a := range call.Args {
			fv.eval(st, a)
		}
		fv.atPanic(st, call)
		st.dead = true
		return nil
	case "min", "max":
		v := fv.eval(st, call.Args[0])
		for _, a := range call.Args[1:] {
			w := fv.eval(st, a)
			op := "<="
			if name == "max" {
				op = ">="
			}
			v = Val{fmt.Sprintf("(ite (%s %s %s) %s %s)", op, v.T, w.T, v.T, w.T), fv.typeOf(call)}
		}
		return []Val{v}
	}
	fv.unsupported(call, "builtin "+name)
	return []Val{{fv.fresh("bi", fv.smt.sortOf(fv.typeOf(call))), fv.typeOf(call)}}
}

// copy(dst[lo:], src) / copy(dst, src): overlap-safe copy modelled with a fresh array
func (fv *FnV) evalCopy(st *State, call *ast.CallExpr) Val {
	intT := types.Type(types.Typ[types.Int])
	dstE := ast.Unparen(call.Args[0])
	src := fv.eval(st, call.Args[1])
	var base ast.Expr
	lo := "0"
	var hi string
	if se, ok := dstE.(*ast.SliceExpr); ok {
		base = se.X
		if se.Low != nil {
			lo = fv.eval(st, se.Low).T
		}
		if se.High != nil {
			hi = fv.eval(st, se.High).T
		}
	} else {
		base = dstE
	}
	d := fv.eval(st, base)
	dt := fv.smt.resolve(d.Ty)
	sl, ok := dt.Underlying().(*types.Slice)
	if !ok {
		fv.unsupported(call, "copy into "+dt.String())
		return Val{"0", intT}
	}
	_, dlen, darr, dnil := fv.sliceParts(d)
	if hi == "" {
		hi = dlen
	}
	fv.oblige(st, "safe.slice", exprString(fv.prog.Fset, call.Args[0]), fmt.Sprintf("(and (<= 0 %s) (<= %s %s) (<= %s %s))", lo, lo, hi, hi, dlen), call, nil)
	// the source may be a slice expression too
	_, slen, sarr, _ := fv.sliceParts(Val{src.T, dt})
	n := fv.name("cn", fmt.Sprintf("(ite (<= (- %s %s) %s) (- %s %s) %s)", hi, lo, slen, hi, lo, slen), "Int")
	es := fv.smt.sortOf(sl.Elem())
	b := fv.fresh("cp", "(Array Int "+es+")")
	st.assume(fmt.Sprintf("(forall ((j!q Int)) (! (ite (and (<= %s j!q) (< j!q (+ %s %s))) (= (select %s j!q) (select %s (- j!q %s))) (= (select %s j!q) (select %s j!q))) :pattern ((select %s j!q))))",
		lo, lo, n, b, sarr, lo, b, darr, b))
	fv.assign(st, base, fv.mkSlice(dt, dlen, b, dnil))
	return Val{n, intT}
}

// atPanic: a reachable panic is a failed obligation unless the contract's `panics`
// clause covers it.
func (fv *FnV) atPanic(st *State, n ast.Node) {
	if fv.fc != nil && fv.fc.Panics != nil && len(fv.frames) == 1 {
		g := fv.evalClauseEntry(st, fv.fc.Panics)
		fv.oblige(st, "panics.only-when", "", g, n, fv.fc.Panics)
		return
	}
	fv.oblige(st, "safe.panic", "", "false", n, nil)
}

// ------------------------------------------------------------------ external packages

func (fv *FnV) uninterp(name string, argSorts []string, ret string) {
	fv.smt.declareFun(name, fmt.Sprintf("(declare-fun %s (%s) %s)", name, strings.Join(argSorts, " "), ret))
}

func (fv *FnV) evalExternal(st *State, call *ast.CallExpr, o *types.Func) []Val {
	pkg := o.Pkg().Name()
	name := o.Name()
	sig := o.Type().(*types.Signature)
	realT := types.Type(types.Typ[types.Float64])
	var args []Val
	if sel, ok := ast.Unparen(call.Fun).(*ast.SelectorExpr); ok && sig.Recv() != nil {
		args = append(args, fv.eval(st, sel.X))
	}
	for _, a := range call.Args {
		if _, isLit := a.(*ast.FuncLit); isLit {
			args = append(args, Val{"0", types.Typ[types.Int]})
			continue
		}
		args = append(args, fv.eval(st, a))
	}
	full := pkg + "." + name
	if sig.Recv() != nil {
		full = pkg + ".(" + name + ")"
	}
	a := func(i int) string { return args[i].T }
	switch full {
	case "math.Abs":
		return []Val{{fmt.Sprintf("(ite (>= %s 0.0) %s (- %s))", a(0), a(0), a(0)), realT}}
	case "bits.Mul64":
		// 128-bit product of two uint64: hi*2^64 + lo == x*y, 0 <= lo < 2^64, hi >= 0
		u64 := types.Type(types.Typ[types.Uint64])
		x := fv.name("mx", a(0), "Int")
		y := fv.name("my", a(1), "Int")
		hi := fv.fresh("mhi", "Int")
		lo := fv.fresh("mlo", "Int")
		fv.decls = append(fv.decls, fmt.Sprintf("(assert (and (= (+ (* 18446744073709551616 %s) %s) (* %s %s)) (<= 0 %s) (< %s 18446744073709551616) (<= 0 %s)))", hi, lo, x, y, lo, lo, hi))
		// hint: both factors below 2^31 make the product smaller than 2^62, so hi is 0
		fv.decls = append(fv.decls, fmt.Sprintf("(assert (=> (and (<= 0 %s) (< %s 2147483648) (<= 0 %s) (< %s 2147483648)) (and (= %s 0) (= %s (* %s %s)) (< %s 4611686018427387904))))", x, x, y, y, hi, lo, x, y, lo))
		return []Val{{hi, u64}, {lo, u64}}
	case "math.Min":
		return []Val{{fmt.Sprintf("(ite (<= %s %s) %s %s)", a(0), a(1), a(0), a(1)), realT}}
	case "math.Max":
		return []Val{{fmt.Sprintf("(ite (>= %s %s) %s %s)", a(0), a(1), a(0), a(1)), realT}}
	case "math.Floor", "math.Ceil", "math.Trunc", "math.Round":
		x := fv.name("fx", a(0), "Real")
		it := fv.roundInt(x, strings.ToLower(name))
		rt := fmt.Sprintf("(to_real %s)", it)
		if fv.intOf == nil {
			fv.intOf = map[string]string{}
		}
		fv.intOf[rt] = it
		return []Val{{rt, realT}}
	case "math.Modf":
		t := fv.name("mf", a(0), "Real")
		it := fv.roundInt(t, "trunc")
		ip := fmt.Sprintf("(to_real %s)", it)
		if fv.intOf == nil {
			fv.intOf = map[string]string{}
		}
		fv.intOf[ip] = it
		return []Val{{ip, realT}, {fmt.Sprintf("(- %s %s)", t, ip), realT}}
	case "math.IsNaN":
		fv.tag("no-nan")
		return []Val{{"false", types.Typ[types.Bool]}}
	case "math.IsInf":
		// infinities are the two huge uninterpreted constants that math.Inf / negInf / posInf denote; a value is
		// infinite exactly when it equals one of them (arithmetic is assumed not to produce them)
		fv.tag("no-inf-from-arithmetic")
		fv.tag("inf-as-huge-real")
		fv.smt.declareFun("G_posInf", "(declare-const G_posInf Real)")
		fv.smt.declareFun("ax_posInf", "(assert (> G_posInf 1000000000000000000000000000000000000000000000000000000000000000000000000000000000000000000000000000000000000000000000000000000000000000000000000000000000000000000000000000000000000000000000000000000000000000000000000000000000000000000000000000000000000000000000000000000000000000000000000000000000000.0))")
		fv.smt.declareFun("G_negInf", "(declare-const G_negInf Real)")
		fv.smt.declareFun("ax_negInf", "(assert (< G_negInf (- 1000000000000000000000000000000000000000000000000000000000000000000000000000000000000000000000000000000000000000000000000000000000000000000000000000000000000000000000000000000000000000000000000000000000000000000000000000000000000000000000000000000000000000000000000000000000000000000000000000000000000.0)))")
		return []Val{{fmt.Sprintf("(or (and (>= %s 0) (= %s G_posInf)) (and (<= %s 0) (= %s G_negInf)))", a(1), a(0), a(1), a(0)), types.Typ[types.Bool]}}
	case "math.Inf":
		fv.tag("inf-as-huge-real")
		fv.smt.declareFun("G_posInf", "(declare-const G_posInf Real)")
		fv.smt.declareFun("ax_posInf", "(assert (> G_posInf 1000000000000000000000000000000000000000000000000000000000000000000000000000000000000000000000000000000000000000000000000000000000000000000000000000000000000000000000000000000000000000000000000000000000000000000000000000000000000000000000000000000000000000000000000000000000000000000000000000000000000.0))")
		fv.smt.declareFun("G_negInf", "(declare-const G_negInf Real)")
		fv.smt.declareFun("ax_negInf", "(assert (< G_negInf (- 1000000000000000000000000000000000000000000000000000000000000000000000000000000000000000000000000000000000000000000000000000000000000000000000000000000000000000000000000000000000000000000000000000000000000000000000000000000000000000000000000000000000000000000000000000000000000000000000000000000000000.0)))")
		return []Val{{fmt.Sprintf("(ite (>= %s 0) G_posInf G_negInf)", a(0)), realT}}
	case "math.Sqrt":
		fv.uninterp("m_sqrt", []string{"Real"}, "Real")
		fv.smt.declareFun("ax_sqrt", "(assert (forall ((x Real)) (! (=> (>= x 0.0) (and (>= (m_sqrt x) 0.0) (= (* (m_sqrt x) (m_sqrt x)) x))) :pattern ((m_sqrt x)))))")
		fv.tag("sqrt-axiom")
		return []Val{{fmt.Sprintf("(m_sqrt %s)", a(0)), realT}}
	case "math.Pow":
		fv.uninterp("m_pow", []string{"Real", "Real"}, "Real")
		fv.tag("math.Pow-uninterpreted")
		return []Val{{fmt.Sprintf("(m_pow %s %s)", a(0), a(1)), realT}}
	case "math.Sin", "math.Cos", "math.Acos", "math.Asin", "math.Tan", "math.Atan":
		f := "m_" + strings.ToLower(name)
		fv.uninterp(f, []string{"Real"}, "Real")
		fv.tag("trig-uninterpreted")
		return []Val{{fmt.Sprintf("(%s %s)", f, a(0)), realT}}
	case "math.Atan2", "math.Hypot", "math.Mod":
		f := "m_" + strings.ToLower(name)
		fv.uninterp(f, []string{"Real", "Real"}, "Real")
		fv.tag("trig-uninterpreted")
		return []Val{{fmt.Sprintf("(%s %s %s)", f, a(0), a(1)), realT}}
	case "decimal.New":
		// New(value, scale): value / 10^scale ; only scale 0 is used
		fv.tag("decimal-contract")
		if args[1].T != "0" {
			fv.unsupported(call, "decimal.New with non-zero scale")
		}
		return []Val{{fmt.Sprintf("(to_real %s)", a(0)), sig.Results().At(0).Type()}, {"0", sig.Results().At(1).Type()}}
	case "decimal.NewFromFloat64":
		fv.tag("decimal-contract")
		return []Val{{a(0), sig.Results().At(0).Type()}, {"0", sig.Results().At(1).Type()}}
	case "decimal.(Mul)":
		fv.tag("decimal-contract")
		return []Val{{fmt.Sprintf("(* %s %s)", a(0), a(1)), sig.Results().At(0).Type()}, {"0", sig.Results().At(1).Type()}}
	case "decimal.(Add)":
		fv.tag("decimal-contract")
		return []Val{{fmt.Sprintf("(+ %s %s)", a(0), a(1)), sig.Results().At(0).Type()}, {"0", sig.Results().At(1).Type()}}
	case "decimal.(Float64)":
		fv.tag("decimal-contract")
		return []Val{{a(0), realT}, {"true", types.Typ[types.Bool]}}
	case "decimal.(Int64)":
		// Int64(scale 0): whole part rounded half-to-even (assumed contract "quant")
		fv.tag("decimal-contract")
		fv.declareQuant()
		return []Val{{fmt.Sprintf("(quant %s)", a(0)), types.Typ[types.Int64]}, {"0", types.Typ[types.Int64]}, {"true", types.Typ[types.Bool]}}
	case "sort.Slice", "slices.SortFunc", "sort.SliceStable":
		// in-place sort: the slice keeps its length, elements are permuted
		fv.tag("sort-permutes")
		v := args[0]
		t := fv.smt.resolve(v.Ty)
		if _, ok := t.Underlying().(*types.Slice); ok {
			_, lenT, _, nilT := fv.sliceParts(v)
			sl := t.Underlying().(*types.Slice)
			_, _, arrT, _ := fv.sliceParts(v)
			b := fv.fresh("sorted", "(Array Int "+fv.smt.sortOf(sl.Elem())+")")
			ln := fv.name("n", lenT, "Int")
			// the sorted slice is a permutation: every element comes from the original
			st.assume(fmt.Sprintf("(forall ((j!q Int)) (! (=> (and (<= 0 j!q) (< j!q %s)) (exists ((k!q Int)) (and (<= 0 k!q) (< k!q %s) (= (select %s j!q) (select %s k!q))))) :pattern ((select %s j!q))))", ln, ln, b, arrT, b))
			fv.assign(st, call.Args[0], fv.mkSlice(t, lenT, b, nilT))
			if full == "sort.Slice" || full == "sort.SliceStable" {
				if fl, ok := ast.Unparen(call.Args[1]).(*ast.FuncLit); ok {
					fv.sortedBy(st, fl, ln)
				}
			}
		}
		return nil
	case "fmt.Errorf", "errors.New":
		e := fv.fresh("err", "Int")
		st.assume(fmt.Sprintf("(not (= %s 0))", e))
		return []Val{{e, sig.Results().At(0).Type()}}
	case "fmt.Sprintf", "fmt.Sprint", "strings.Repeat":
		return []Val{{fv.fresh("str", "Int"), sig.Results().At(0).Type()}}
	}
	fv.unsupported(call, "external call "+full)
	return fv.havocResults(st, sig)
}

// ------------------------------------------------------------------ spec-level calls

func (fv *FnV) evalSpecCall(st *State, call *ast.CallExpr, name string, o *types.Func) Val {
	rt := fv.typeOf(call)
	switch name {
	case "old":
		sf := fv.specTop()
		if sf == nil {
			return fv.eval(st, call.Args[0])
		}
		sf.inOld++
		os := sf.oldSt
		if os == nil {
			os = st
		}
		v := fv.eval(os, call.Args[0])
		sf.inOld--
		return v
	case "implies":
		a := fv.eval(st, call.Args[0])
		b := fv.eval(st, call.Args[1])
		return Val{fmt.Sprintf("(=> %s %s)", a.T, b.T), rt}
	case "iff":
		a := fv.eval(st, call.Args[0])
		b := fv.eval(st, call.Args[1])
		return Val{fmt.Sprintf("(= %s %s)", a.T, b.T), rt}
	case "ite":
		c := fv.eval(st, call.Args[0])
		a := fv.eval(st, call.Args[1])
		b := fv.eval(st, call.Args[2])
		return Val{fmt.Sprintf("(ite %s %s %s)", c.T, a.T, b.T), rt}
	case "__forall", "__exists":
		lo := fv.eval(st, call.Args[0])
		hi := fv.eval(st, call.Args[1])
		fl := call.Args[2].(*ast.FuncLit)
		pid := fl.Type.Params.List[0].Names[0]
		pobj := fv.prog.Info.Defs[pid]
		fv.nfresh++
		bv := fmt.Sprintf("%s!q%d", pid.Name, fv.nfresh)
		sf := fv.specTop()
		if sf == nil {
			sf = &specFrame{cur: map[types.Object]Val{}, old: map[types.Object]Val{}}
			fv.specStack = append(fv.specStack, sf)
			defer func() { fv.specStack = fv.specStack[:len(fv.specStack)-1] }()
		}
		sf.cur[pobj] = Val{bv, types.Typ[types.Int]}
		sf.old[pobj] = Val{bv, types.Typ[types.Int]}
		body := fv.eval(st, fl.Body.List[0].(*ast.ReturnStmt).Results[0])
		delete(sf.cur, pobj)
		delete(sf.old, pobj)
		pats := ""
		if !fv.noName && !fv.noPatterns {
			pats = selectPatterns(body.T, bv)
		}
		if name == "__forall" {
			inner := fmt.Sprintf("(=> (and (<= %s %s) (< %s %s)) %s)", lo.T, bv, bv, hi.T, body.T)
			if pats != "" {
				inner = "(! " + inner + " " + pats + ")"
			}
			return Val{fmt.Sprintf("(forall ((%s Int)) %s)", bv, inner), rt}
		}
		inner := fmt.Sprintf("(and (<= %s %s) (< %s %s) %s)", lo.T, bv, bv, hi.T, body.T)
		if pats != "" {
			inner = "(! " + inner + " " + pats + ")"
		}
		return Val{fmt.Sprintf("(exists ((%s Int)) %s)", bv, inner), rt}
	case "__forallRef":
		fl := call.Args[0].(*ast.FuncLit)
		pid := fl.Type.Params.List[0].Names[0]
		pobj := fv.prog.Info.Defs[pid]
		fv.nfresh++
		bv := fmt.Sprintf("%s!q%d", pid.Name, fv.nfresh)
		sf := fv.specTop()
		if sf == nil {
			sf = &specFrame{cur: map[types.Object]Val{}, old: map[types.Object]Val{}}
			fv.specStack = append(fv.specStack, sf)
			defer func() { fv.specStack = fv.specStack[:len(fv.specStack)-1] }()
		}
		sf.cur[pobj] = Val{bv, pobj.Type()}
		sf.old[pobj] = Val{bv, pobj.Type()}
		body := fv.eval(st, fl.Body.List[0].(*ast.ReturnStmt).Results[0])
		delete(sf.cur, pobj)
		delete(sf.old, pobj)
		return Val{fmt.Sprintf("(forall ((%s Int)) (=> (not (= %s 0)) %s))", bv, bv, body.T), rt}
	case "__forallInt":
		fl := call.Args[0].(*ast.FuncLit)
		pid := fl.Type.Params.List[0].Names[0]
		pobj := fv.prog.Info.Defs[pid]
		fv.nfresh++
		bv := fmt.Sprintf("%s!q%d", pid.Name, fv.nfresh)
		sf := fv.specTop()
		if sf == nil {
			sf = &specFrame{cur: map[types.Object]Val{}, old: map[types.Object]Val{}}
			fv.specStack = append(fv.specStack, sf)
			defer func() { fv.specStack = fv.specStack[:len(fv.specStack)-1] }()
		}
		sf.cur[pobj] = Val{bv, types.Typ[types.Int64]}
		sf.old[pobj] = Val{bv, types.Typ[types.Int64]}
		body := fv.eval(st, fl.Body.List[0].(*ast.ReturnStmt).Results[0])
		delete(sf.cur, pobj)
		delete(sf.old, pobj)
		return Val{fmt.Sprintf("(forall ((%s Int)) %s)", bv, body.T), rt}
	case "toReal":
		a := fv.eval(st, call.Args[0])
		if isFloatType(a.Ty) {
			return Val{a.T, rt}
		}
		return Val{fmt.Sprintf("(to_real %s)", a.T), rt}
	case "toInt":
		a := fv.eval(st, call.Args[0])
		if isFloatType(a.Ty) {
			return Val{fmt.Sprintf("(to_int %s)", a.T), rt}
		}
		return Val{a.T, rt}
	case "absI":
		a := fv.eval(st, call.Args[0])
		z := "0"
		if isFloatType(a.Ty) {
			z = "0.0"
		}
		return Val{fmt.Sprintf("(ite (>= %s %s) %s (- %s))", a.T, z, a.T, a.T), rt}
	case "pow2", "upow2":
		a := fv.eval(st, call.Args[0])
		if k, ok := parseIntLit(a.T); ok && k.IsInt64() {
			return Val{pow2(int(k.Int64())).String(), rt}
		}
		if !fv.smt.funSeen["pow2f"] {
			fv.smt.funSeen["pow2f"] = true
			body := "0"
			for k := 66; k >= 0; k-- {
				body = fmt.Sprintf("(ite (= k %d) %s %s)", k, pow2(k).String(), body)
			}
			fv.smt.addFun("pow2f", "(define-fun pow2f ((k Int)) Int "+body+")")
		}
		return Val{fmt.Sprintf("(pow2f %s)", a.T), rt}
	case "wrap64":
		a := fv.eval(st, call.Args[0])
		return Val{fmt.Sprintf("(- (mod (+ %s 9223372036854775808) 18446744073709551616) 9223372036854775808)", a.T), rt}
	case "mulU128":
		a := fv.eval(st, call.Args[0])
		b := fv.eval(st, call.Args[1])
		return Val{fmt.Sprintf("(* %s %s)", a.T, b.T), rt}
	case "mathInt":
		return Val{fv.eval(st, call.Args[0]).T, rt}
	case "quant":
		a := fv.eval(st, call.Args[0])
		fv.declareQuant()
		return Val{fmt.Sprintf("(quant %s)", a.T), rt}
	case "pow10":
		a := fv.eval(st, call.Args[0])
		fv.uninterp("m_pow", []string{"Real", "Real"}, "Real")
		return Val{fmt.Sprintf("(m_pow 10.0 (to_real %s))", a.T), rt}
	case "truncF":
		a := fv.eval(st, call.Args[0])
		return Val{fmt.Sprintf("(ite (>= %s 0.0) (to_int %s) (- (to_int (- %s))))", a.T, a.T, a.T), rt}
	case "isIntegral":
		a := fv.eval(st, call.Args[0])
		return Val{fmt.Sprintf("(is_int %s)", a.T), rt}
	case "fresh":
		// the reference was allocated during the call: not allocated in the pre-state
		a := fv.eval(st, call.Args[0])
		sf := fv.specTop()
		os := st
		if sf != nil && sf.oldSt != nil {
			os = sf.oldSt
		}
		return Val{fmt.Sprintf("(and (not (= %s 0)) (not (select %s %s)) (select %s %s))", a.T, fv.heapGet(os, "$alloc"), a.T, fv.heapGet(st, "$alloc"), a.T), rt}
	case "allocated":
		// the reference denotes an object that exists in the current state (a fact of the heap model: every
		// pointer a Go program can hold is nil or allocated; stated explicitly where a proof needs it)
		a := fv.eval(st, call.Args[0])
		return Val{fmt.Sprintf("(and (not (= %s 0)) (select %s %s))", a.T, fv.heapGet(st, "$alloc"), a.T), rt}
	case "same":
		a := fv.eval(st, call.Args[0])
		b := fv.eval(st, call.Args[1])
		return Val{fmt.Sprintf("(= %s %s)", a.T, b.T), rt}
	case "isnil":
		a := fv.eval(st, call.Args[0])
		_, _, _, nilT := fv.sliceParts(a)
		return Val{nilT, rt}
	}
	// user spec function
	sfd := fv.prog.SpecFn[name]
	if sfd == nil {
		fv.unsupported(call, "spec function "+name)
		return Val{fv.fresh("unk", fv.smt.sortOf(rt)), rt}
	}
	// spec functions over heap references are expanded in place (they read the current heap)
	heapDep := false
	for _, f := range sfd.Type.Params.List {
		if tv, ok := fv.prog.Info.Types[f.Type]; ok && fv.smt.isHeapPtr(tv.Type) {
			heapDep = true
		}
	}
	if heapDep {
		cur := map[types.Object]Val{}
		i := 0
		for _, f := range sfd.Type.Params.List {
			for _, n := range f.Names {
				if i < len(call.Args) {
					cur[fv.prog.Info.Defs[n]] = fv.eval(st, call.Args[i])
				}
				i++
			}
		}
		sf := &specFrame{cur: cur, old: cur}
		if top := fv.specTop(); top != nil {
			sf.oldSt = top.oldSt
			sf.inOld = top.inOld
		}
		fv.specStack = append(fv.specStack, sf)
		saveSpec := fv.spec
		fv.spec = true
		es := st
		if sf.inOld > 0 && sf.oldSt != nil {
			es = sf.oldSt
		}
		v := fv.eval(es, sfd.Body.List[0].(*ast.ReturnStmt).Results[0])
		fv.spec = saveSpec
		fv.specStack = fv.specStack[:len(fv.specStack)-1]
		return Val{v.T, rt}
	}
	fv.defineSpecFunc(name, sfd, o)
	var as []string
	for _, a := range call.Args {
		as = append(as, fv.eval(st, a).T)
	}
	if len(as) == 0 {
		return Val{"sp_" + name, rt}
	}
	return Val{fmt.Sprintf("(sp_%s %s)", name, strings.Join(as, " ")), rt}
}

// defineSpecFunc emits the SMT definition of a user spec function (once).
func (fv *FnV) defineSpecFunc(name string, sfd *ast.FuncDecl, o *types.Func) {
	sname := "sp_" + name
	if fv.smt.funSeen[sname] {
		return
	}
	fv.smt.funSeen[sname] = true
	sig := o.Type().(*types.Signature)
	var formals, sorts, names []string
	cur := map[types.Object]Val{}
	for _, f := range sfd.Type.Params.List {
		for _, n := range f.Names {
			obj := fv.prog.Info.Defs[n]
			fn := "p_" + n.Name
			so := fv.smt.sortOf(obj.Type())
			formals = append(formals, fmt.Sprintf("(%s %s)", fn, so))
			sorts = append(sorts, so)
			names = append(names, fn)
			cur[obj] = Val{fn, fv.smt.resolve(obj.Type())}
		}
	}
	ret := fv.smt.sortOf(sig.Results().At(0).Type())
	// opaque spec function?
	var sp *SpecFunc
	for _, s := range fv.prog.C.Specs {
		if s.Name == name {
			sp = s
		}
	}
	if sp != nil && sp.Opaque {
		fv.smt.addFun(sname, fmt.Sprintf("(declare-fun %s (%s) %s)", sname, strings.Join(sorts, " "), ret))
		return
	}
	// recursive?
	rec := false
	ast.Inspect(sfd.Body, func(n ast.Node) bool {
		if id, ok := n.(*ast.Ident); ok && id.Name == name {
			rec = true
		}
		return true
	})
	// reserve the slot so that definitions of callees come first
	saveSpec, saveStack, saveNoName := fv.spec, fv.specStack, fv.noName
	fv.spec = true
	fv.noName = true
	fv.specStack = []*specFrame{{cur: cur, old: cur}}
	dummy := &State{vars: map[types.Object]Val{}, heap: map[string]string{}}
	body := fv.eval(dummy, sfd.Body.List[0].(*ast.ReturnStmt).Results[0])
	fv.spec, fv.specStack, fv.noName = saveSpec, saveStack, saveNoName
	if rec {
		fv.smt.addFun(sname, fmt.Sprintf("(declare-fun %s (%s) %s)", sname, strings.Join(sorts, " "), ret))
		app := "(" + sname + " " + strings.Join(names, " ") + ")"
		// guarded form (one implication per top-level ite branch) so that relevancy stops the
		// unfolding at the base case instead of looping on f(k-1), f(k-2), ...
		if c, a, b, ok := splitIte(body.T); ok {
			fv.smt.addFun("def_"+sname, fmt.Sprintf("(assert (forall (%s) (! (and (=> %s (= %s %s)) (=> (not %s) (= %s %s))) :pattern (%s))))", strings.Join(formals, " "), c, app, a, c, app, b, app))
		} else {
			fv.smt.addFun("def_"+sname, fmt.Sprintf("(assert (forall (%s) (! (= %s %s) :pattern (%s))))", strings.Join(formals, " "), app, body.T, app))
		}
	} else {
		fv.smt.addFun(sname, fmt.Sprintf("(define-fun %s (%s) %s %s)", sname, strings.Join(formals, " "), ret, body.T))
	}
}

// ------------------------------------------------------------------ clauses

// bindClause builds the environment of a synthesized clause function from names.
func (fv *FnV) clauseParams(cl *Clause) []*types.Var {
	fd := fv.prog.ClauseFn[cl.ID]
	var out []*types.Var
	if fd == nil {
		return nil
	}
	for _, f := range fd.Type.Params.List {
		for _, n := range f.Names {
			if v, ok := fv.prog.Info.Defs[n].(*types.Var); ok {
				out = append(out, v)
			}
		}
	}
	return out
}

func (fv *FnV) clauseExpr(cl *Clause) ast.Expr {
	fd := fv.prog.ClauseFn[cl.ID]
	if fd == nil || len(fd.Body.List) == 0 {
		return nil
	}
	return fd.Body.List[0].(*ast.ReturnStmt).Results[0]
}

// evalWithEnv evaluates a clause under explicit name bindings.
func (fv *FnV) evalWithEnv(st *State, cl *Clause, cur, old map[string]Val, oldSt *State) string {
	e := fv.clauseExpr(cl)
	if e == nil {
		fv.unsupported(nil, "clause without synthesized function: "+cl.Text)
		return "true"
	}
	sf := &specFrame{cur: map[types.Object]Val{}, old: map[types.Object]Val{}, oldSt: oldSt}
	for _, p := range fv.clauseParams(cl) {
		if v, ok := cur[p.Name()]; ok {
			sf.cur[p] = Val{v.T, fv.smt.resolve(p.Type())}
		} else {
			fv.unsupported(nil, fmt.Sprintf("clause %q: no binding for %s", cl.Text, p.Name()))
			sf.cur[p] = Val{fv.fresh("unbound_"+p.Name(), fv.smt.sortOf(p.Type())), p.Type()}
		}
		if v, ok := old[p.Name()]; ok {
			sf.old[p] = Val{v.T, fv.smt.resolve(p.Type())}
		}
	}
	saveSpec := fv.spec
	fv.spec = true
	fv.specStack = append(fv.specStack, sf)
	v := fv.eval(st, e)
	fv.specStack = fv.specStack[:len(fv.specStack)-1]
	fv.spec = saveSpec
	return v.T
}

// evalClause evaluates a clause of the function under verification (or of the
// inlined callee whose frame is current) in state st.
func (fv *FnV) evalClause(st *State, cl *Clause, li *loopInfo, extra map[string]Val) string {
	fr := fv.cur()
	cur := map[string]Val{}
	old := map[string]Val{}
	// parameters / receiver / named results by name
	for name, obj := range fv.frameVars(fr) {
		if v, ok := st.vars[obj]; ok {
			cur[name] = v
		}
		if fv.entry != nil && len(fv.frames) == 1 {
			if v, ok := fv.entry.vars[obj]; ok {
				old[name] = v
			}
		}
	}
	if li != nil {
		var pos token.Pos
		switch x := li.stmt.(type) {
		case *ast.ForStmt:
			pos = x.Body.Lbrace + 1
		case *ast.RangeStmt:
			pos = x.Body.Lbrace + 1
		}
		scope := fv.prog.Pkg.Scope().Innermost(pos)
		for _, p := range fv.clauseParams(cl) {
			if _, ok := cur[p.Name()]; ok {
				continue
			}
			if p.Name() == "_i" && li.idxObj != nil {
				cur["_i"] = st.vars[li.idxObj]
				continue
			}
			if scope != nil {
				if _, obj := scope.LookupParent(p.Name(), pos); obj != nil {
					if v, ok := st.vars[obj]; ok {
						cur[p.Name()] = v
					} else if vo, ok := obj.(*types.Var); ok {
						cur[p.Name()] = Val{fv.smt.zeroOf(vo.Type()), vo.Type()}
					}
				}
			}
		}
	}
	for k, v := range extra {
		cur[k] = v
	}
	var oldSt *State
	if len(fv.frames) == 1 {
		oldSt = fv.entry
	}
	return fv.evalWithEnv(st, cl, cur, old, oldSt)
}

// evalClauseStep: loop step clause; old(e) denotes the value at the start of the iteration.
func (fv *FnV) evalClauseStep(st *State, cl *Clause, li *loopInfo, start *State) string {
	fr := fv.cur()
	cur := map[string]Val{}
	old := map[string]Val{}
	for name, obj := range fv.frameVars(fr) {
		if v, ok := st.vars[obj]; ok {
			cur[name] = v
		}
		if v, ok := start.vars[obj]; ok {
			old[name] = v
		}
	}
	var pos token.Pos
	switch x := li.stmt.(type) {
	case *ast.ForStmt:
		pos = x.Body.Rbrace
	case *ast.RangeStmt:
		pos = x.Body.Rbrace
	}
	scope := fv.prog.Pkg.Scope().Innermost(pos)
	for _, p := range fv.clauseParams(cl) {
		if _, ok := cur[p.Name()]; ok {
			continue
		}
		if p.Name() == "_i" && li.idxObj != nil {
			cur["_i"] = st.vars[li.idxObj]
			old["_i"] = start.vars[li.idxObj]
			continue
		}
		if scope != nil {
			if _, obj := scope.LookupParent(p.Name(), pos); obj != nil {
				if v, ok := st.vars[obj]; ok {
					cur[p.Name()] = v
				}
				if v, ok := start.vars[obj]; ok {
					old[p.Name()] = v
				}
			}
		}
	}
	return fv.evalWithEnv(st, cl, cur, old, start)
}

// evalClauseAt evaluates a clause at a program point: locals resolved by scope lookup.
func (fv *FnV) evalClauseAt(st *State, cl *Clause, pos token.Pos) string {
	return fv.evalClauseAtPre(st, cl, pos, fv.entry)
}

// evalClauseAtPre: like evalClauseAt, with old(e) evaluated in the given earlier state
func (fv *FnV) evalClauseAtPre(st *State, cl *Clause, pos token.Pos, pre *State) string {
	fr := fv.cur()
	cur := map[string]Val{}
	old := map[string]Val{}
	for name, obj := range fv.frameVars(fr) {
		if v, ok := st.vars[obj]; ok {
			cur[name] = v
		}
		if pre != nil {
			if v, ok := pre.vars[obj]; ok {
				old[name] = v
			}
		}
	}
	if fv.anchorCall != nil {
		for i, v := range fv.callArgs[fv.anchorCall] {
			cur[fmt.Sprintf("arg%d", i)] = v
			old[fmt.Sprintf("arg%d", i)] = v
		}
	}
	scope := fv.prog.Pkg.Scope().Innermost(pos)
	for _, p := range fv.clauseParams(cl) {
		if _, ok := cur[p.Name()]; ok {
			continue
		}
		if scope != nil {
			if _, obj := scope.LookupParent(p.Name(), pos); obj != nil {
				if v, ok := st.vars[obj]; ok {
					cur[p.Name()] = v
				}
			}
		}
	}
	if pre != fv.entry && pre != nil {
		// locals in scope at the anchor: their values before the statement
		if scope != nil {
			for _, p := range fv.clauseParams(cl) {
				if _, ok := old[p.Name()]; ok {
					continue
				}
				if _, obj := scope.LookupParent(p.Name(), pos); obj != nil {
					if v, ok := pre.vars[obj]; ok {
						old[p.Name()] = v
					}
				}
			}
		}
	}
	return fv.evalWithEnv(st, cl, cur, old, pre)
}

// evalClauseEntry: clause over entry values of parameters (requires, panics)
func (fv *FnV) evalClauseEntry(st *State, cl *Clause) string {
	fr := fv.cur()
	cur := map[string]Val{}
	src := fv.entry
	if src == nil {
		src = st
	}
	for name, obj := range fv.frameVars(fr) {
		if v, ok := src.vars[obj]; ok {
			cur[name] = v
		}
	}
	return fv.evalWithEnv(src, cl, cur, cur, src)
}

// frameVars: name -> object for receiver, parameters and named results of a frame's function
func (fv *FnV) frameVars(fr *frame) map[string]types.Object {
	out := map[string]types.Object{}
	add := func(fl *ast.FieldList, prefix string) {
		if fl == nil {
			return
		}
		cnt := 0
		for _, f := range fl.List {
			if len(f.Names) == 0 {
				cnt++
				continue
			}
			for _, n := range f.Names {
				if obj := fv.prog.Info.Defs[n]; obj != nil {
					nm := n.Name
					if nm == "_" {
						nm = fmt.Sprintf("%s%d", prefix, cnt)
					}
					out[nm] = obj
				}
				cnt++
			}
		}
	}
	add(fr.fd.Recv, "_recv")
	add(fr.fd.Type.Params, "_p")
	add(fr.fd.Type.Results, "_r")
	return out
}

// splitIte decomposes "(ite c a b)" into its three operands.
func splitIte(t string) (string, string, string, bool) {
	if !strings.HasPrefix(t, "(ite ") || !strings.HasSuffix(t, ")") {
		return "", "", "", false
	}
	inner := t[5 : len(t)-1]
	var parts []string
	depth, start := 0, 0
	for i := 0; i <= len(inner); i++ {
		if i == len(inner) || (inner[i] == ' ' && depth == 0) {
			if i > start {
				parts = append(parts, inner[start:i])
			}
			start = i + 1
			continue
		}
		if inner[i] == '(' {
			depth++
		} else if inner[i] == ')' {
			depth--
		}
	}
	if len(parts) != 3 {
		return "", "", "", false
	}
	return parts[0], parts[1], parts[2], true
}

// selectPatterns: instantiation patterns for a bound variable: every term (select T v)
// in the body whose index is exactly the bound variable and whose array term T does not
// contain another quantified variable of an enclosing/inner binder.
func selectPatterns(body, bv string) string {
	needle := " " + bv + ")"
	seen := map[string]bool{}
	var pats []string
	for i := 0; i+len(needle) <= len(body); i++ {
		if body[i:i+len(needle)] != needle {
			continue
		}
		end := i + len(needle)
		// walk back to the matching "(" of this application
		depth := 0
		j := i
		for ; j >= 0; j-- {
			if body[j] == ')' {
				depth++
			} else if body[j] == '(' {
				if depth == 0 {
					break
				}
				depth--
			}
		}
		if j < 0 {
			continue
		}
		term := body[j:end]
		if !strings.HasPrefix(term, "(select ") {
			continue
		}
		if strings.Contains(term[:len(term)-len(needle)], "!q") {
			continue // array term depends on another bound variable
		}
		bad := false
		for _, op := range []string{"(and ", "(or ", "(not ", "(=> ", "(= ", "(< ", "(<= ", "(> ", "(>= ", "(ite ", "(+ ", "(- ", "(* "} {
			if strings.Contains(term, op) {
				bad = true
			}
		}
		if bad {
			continue
		}
		if !seen[term] && len(pats) < 4 {
			seen[term] = true
			pats = append(pats, ":pattern ("+term+")")
		}
	}
	return strings.Join(pats, " ")
}

// sortedBy: after sort.Slice(x, less) no element is less than its predecessor.  The comparator literal is
// evaluated symbolically on the sorted slice for the index pair (j+1, j) with j a bound variable; the fact is
// only assumed when that evaluation is a pure term (no fresh constants were needed).
func (fv *FnV) sortedBy(st *State, fl *ast.FuncLit, n string) {
	sig, ok := fv.prog.Info.Types[fl].Type.(*types.Signature)
	if !ok || sig.Params().Len() != 2 || sig.Results().Len() != 1 {
		return
	}
	fv.nfresh++
	j := fmt.Sprintf("j!s%d", fv.nfresh)
	st2 := st.clone()
	saveName, nd, nOut := fv.noName, len(fv.decls), len(fv.outside)
	fv.noOblige++
	fv.noName = true
	fd := &ast.FuncDecl{Name: ast.NewIdent("less"), Type: fl.Type, Body: fl.Body}
	intT := types.Typ[types.Int]
	args := []argInfo{{val: Val{fmt.Sprintf("(+ %s 1)", j), intT}}, {val: Val{j, intT}}}
	out := fv.inlineCall(st2, nil, "sort.less", fd, sig, args, nil)
	fv.noOblige--
	fv.noName = saveName
	delete(fv.inlined, "sort.less")
	pure := !st2.dead && len(out) == 1 && len(fv.outside) == nOut
	for _, d := range fv.decls[nd:] {
		if strings.HasPrefix(d, "(declare-const") {
			pure = false
		}
	}
	if !pure {
		fv.tag("sort-order-not-modelled")
		return
	}
	fv.tag("sort-orders-by-comparator")
	st.assume(fmt.Sprintf("(forall ((%s Int)) (=> (and (<= 0 %s) (< (+ %s 1) %s)) (not %s)))", j, j, j, n, out[0].T))
}
