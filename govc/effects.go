package main

// Effects: a conservative, syntax-directed write-effect summary for every function in
// the package, recomputed from /repo's current source on every run.  It is used
//   - by the symbolic executor to decide what a loop or a call may modify (havoc sets),
//   - by the frame checker (frame.go) for the #frame.* obligations.

import (
	"go/ast"
	"go/token"
	"go/types"
	"sort"
)

type FuncEffects struct {
	Key         string
	Writes      map[string]bool // heap keys "T.f"
	ParamWrites map[int]bool    // index into receiver(-1)/params: memory reachable from the parameter is written
	Globals     map[string]bool // package-level variables written / address taken
	Calls       map[string]bool
	CallsFuncValue bool
	HasLoop     bool
	NStmts      int
	Allocates   bool
	paramObjs   map[types.Object]int
	sites       []callSite
	WriteSites  map[int][]string // param index -> positions (for reports)
	GlobalSites map[string][]string
}

type callSite struct {
	callee string
	args   []ast.Expr // receiver first (nil if none), then params
	call   *ast.CallExpr
}

type Effects struct {
	prog      *Program
	smt       *SMT
	F         map[string]*FuncEffects
	heapSorts map[string]string
}

type modSet struct {
	vars    map[types.Object]bool
	heap    map[string]bool
	allHeap bool
}

func NewEffects(prog *Program, smt *SMT) *Effects {
	e := &Effects{prog: prog, smt: smt, F: map[string]*FuncEffects{}, heapSorts: map[string]string{"$alloc": "(Array Int Bool)"}}
	e.findHeapStructs()
	for _, k := range sortedKeys(prog.Funcs) {
		e.F[k] = e.direct(k, prog.Funcs[k])
	}
	// fixpoint over the call graph
	for changed := true; changed; {
		changed = false
		for _, k := range sortedKeys(e.F) {
			fe := e.F[k]
			for _, cs := range fe.sites {
				ce := e.F[cs.callee]
				if ce == nil {
					continue
				}
				for w := range ce.Writes {
					if !fe.Writes[w] {
						fe.Writes[w] = true
						changed = true
					}
				}
				for g := range ce.Globals {
					if !fe.Globals[g] {
						fe.Globals[g] = true
						fe.GlobalSites[g] = append(fe.GlobalSites[g], "via "+cs.callee)
						changed = true
					}
				}
				if ce.Allocates && !fe.Allocates {
					fe.Allocates = true
					changed = true
				}
				if ce.CallsFuncValue && !fe.CallsFuncValue {
					fe.CallsFuncValue = true
					changed = true
				}
				for pi := range ce.ParamWrites {
					idx := pi + 1
					if idx < 0 || idx >= len(cs.args) || cs.args[idx] == nil {
						continue
					}
					if e.recordWrite(fe, cs.args[idx], true, "via "+cs.callee+" at "+e.pos(cs.call)) {
						changed = true
					}
				}
			}
		}
	}
	return e
}

func (e *Effects) pos(n ast.Node) string {
	p := e.prog.Fset.Position(n.Pos())
	return shortFile(p.Filename) + ":" + itoa(p.Line)
}

func itoa(i int) string {
	if i == 0 {
		return "0"
	}
	neg := i < 0
	if neg {
		i = -i
	}
	var b []byte
	for i > 0 {
		b = append([]byte{byte('0' + i%10)}, b...)
		i /= 10
	}
	if neg {
		b = append([]byte{'-'}, b...)
	}
	return string(b)
}

// findHeapStructs: a named struct type lives on the heap when the package ever forms
// a pointer to it other than as a method receiver or an in/out parameter of value kind.
func (e *Effects) findHeapStructs() {
	info := e.prog.Info
	mark := func(t types.Type) {
		for {
			if p, ok := t.Underlying().(*types.Pointer); ok {
				t = p.Elem()
				continue
			}
			break
		}
		if n, ok := types.Unalias(t).(*types.Named); ok {
			if _, ok := n.Underlying().(*types.Struct); ok && n.Obj().Pkg() == e.prog.Pkg {
				e.smt.heapStruct[n.Origin().Obj().Name()] = true
			}
		}
	}
	for _, f := range e.prog.Files {
		ast.Inspect(f, func(n ast.Node) bool {
			switch x := n.(type) {
			case *ast.UnaryExpr:
				if x.Op == token.AND {
					if cl, ok := ast.Unparen(x.X).(*ast.CompositeLit); ok {
						if tv, ok := info.Types[cl]; ok {
							mark(tv.Type)
						}
					}
				}
			case *ast.CallExpr:
				if id, ok := x.Fun.(*ast.Ident); ok && id.Name == "new" && len(x.Args) == 1 {
					if tv, ok := info.Types[x.Args[0]]; ok && tv.IsType() {
						mark(tv.Type)
					}
				}
			case *ast.StructType:
				for _, fl := range x.Fields.List {
					if tv, ok := info.Types[fl.Type]; ok {
						if _, isPtr := tv.Type.Underlying().(*types.Pointer); isPtr {
							mark(tv.Type)
						}
						if sl, ok := tv.Type.Underlying().(*types.Slice); ok {
							if _, isPtr := sl.Elem().Underlying().(*types.Pointer); isPtr {
								mark(sl.Elem())
							}
						}
					}
				}
			}
			return true
		})
	}
}

func (e *Effects) direct(key string, fd *ast.FuncDecl) *FuncEffects {
	info := e.prog.Info
	fe := &FuncEffects{Key: key, Writes: map[string]bool{}, ParamWrites: map[int]bool{}, Globals: map[string]bool{}, Calls: map[string]bool{},
		paramObjs: map[types.Object]int{}, WriteSites: map[int][]string{}, GlobalSites: map[string][]string{}}
	if fd.Recv != nil && len(fd.Recv.List) > 0 && len(fd.Recv.List[0].Names) > 0 {
		if o := info.Defs[fd.Recv.List[0].Names[0]]; o != nil {
			fe.paramObjs[o] = -1
		}
	}
	i := 0
	for _, f := range fd.Type.Params.List {
		if len(f.Names) == 0 {
			i++
			continue
		}
		for _, n := range f.Names {
			if o := info.Defs[n]; o != nil {
				fe.paramObjs[o] = i
			}
			i++
		}
	}
	// local aliases of slice/pointer parameters (flow-insensitive): x := p, x := p[a:b], x = p
	for pass := 0; pass < 3; pass++ {
		ast.Inspect(fd.Body, func(n ast.Node) bool {
			as, ok := n.(*ast.AssignStmt)
			if !ok || len(as.Lhs) != len(as.Rhs) {
				return true
			}
			for i, l := range as.Lhs {
				lid, ok := l.(*ast.Ident)
				if !ok {
					continue
				}
				lobj := info.Defs[lid]
				if lobj == nil {
					lobj = info.Uses[lid]
				}
				if lobj == nil {
					continue
				}
				switch lobj.Type().Underlying().(type) {
				case *types.Slice, *types.Pointer:
				default:
					continue
				}
				r := ast.Unparen(as.Rhs[i])
				if se, ok := r.(*ast.SliceExpr); ok {
					r = ast.Unparen(se.X)
				}
				if rid, ok := r.(*ast.Ident); ok {
					if pi, ok := fe.paramObjs[info.Uses[rid]]; ok {
						if _, already := fe.paramObjs[lobj]; !already {
							fe.paramObjs[lobj] = pi
						}
					}
				}
			}
			return true
		})
	}
	ast.Inspect(fd.Body, func(n ast.Node) bool {
		switch x := n.(type) {
		case *ast.FuncLit:
			return true
		case *ast.ForStmt, *ast.RangeStmt:
			fe.HasLoop = true
			fe.NStmts++
			if r, ok := x.(*ast.RangeStmt); ok && r.Tok == token.ASSIGN {
				if r.Key != nil {
					e.recordWrite(fe, r.Key, false, e.pos(r))
				}
				if r.Value != nil {
					e.recordWrite(fe, r.Value, false, e.pos(r))
				}
			}
		case *ast.AssignStmt:
			fe.NStmts++
			for _, l := range x.Lhs {
				e.recordWrite(fe, l, false, e.pos(x))
			}
		case *ast.IncDecStmt:
			fe.NStmts++
			e.recordWrite(fe, x.X, false, e.pos(x))
		case *ast.ExprStmt, *ast.ReturnStmt, *ast.IfStmt, *ast.SwitchStmt, *ast.DeclStmt, *ast.BranchStmt:
			fe.NStmts++
		case *ast.GoStmt, *ast.DeferStmt, *ast.SelectStmt, *ast.SendStmt:
			fe.NStmts++
		case *ast.UnaryExpr:
			if x.Op == token.AND {
				if _, ok := ast.Unparen(x.X).(*ast.CompositeLit); ok {
					fe.Allocates = true
				} else if id := rootIdent(x.X); id != nil {
					if v, ok := info.Uses[id].(*types.Var); ok && v.Parent() == e.prog.Pkg.Scope() {
						fe.Globals[v.Name()] = true
						fe.GlobalSites[v.Name()] = append(fe.GlobalSites[v.Name()], "address taken at "+e.pos(x))
					}
				}
			}
		case *ast.CallExpr:
			e.recordCall(fe, x)
		}
		return true
	})
	return fe
}

func rootIdent(x ast.Expr) *ast.Ident {
	for {
		switch y := ast.Unparen(x).(type) {
		case *ast.Ident:
			return y
		case *ast.SelectorExpr:
			x = y.X
		case *ast.IndexExpr:
			x = y.X
		case *ast.StarExpr:
			x = y.X
		case *ast.SliceExpr:
			x = y.X
		default:
			return nil
		}
	}
}

// recordWrite classifies a write to the location denoted by lhs.  through=true means the
// write goes through the value of lhs (lhs is passed to a callee that writes through it).
func (e *Effects) recordWrite(fe *FuncEffects, lhs ast.Expr, through bool, where string) bool {
	info := e.prog.Info
	changed := false
	x := ast.Unparen(lhs)
	if u, ok := x.(*ast.UnaryExpr); ok && u.Op == token.AND {
		// &lv passed to a writer: lv is written
		return e.recordWrite(fe, u.X, false, where)
	}
	if se, ok := x.(*ast.SliceExpr); ok {
		return e.recordWrite(fe, se.X, true, where)
	}
	if c, ok := x.(*ast.CallExpr); ok {
		_ = c
		return false
	}
	for {
		switch y := x.(type) {
		case *ast.Ident:
			obj := info.Uses[y]
			if obj == nil {
				obj = info.Defs[y]
			}
			v, ok := obj.(*types.Var)
			if !ok {
				return changed
			}
			if v.Parent() == e.prog.Pkg.Scope() {
				if !fe.Globals[v.Name()] {
					fe.Globals[v.Name()] = true
					changed = true
				}
				fe.GlobalSites[v.Name()] = append(fe.GlobalSites[v.Name()], "written at "+where)
				return changed
			}
			if pi, isParam := fe.paramObjs[v]; isParam && through {
				t := v.Type().Underlying()
				_, isPtr := t.(*types.Pointer)
				_, isSlice := t.(*types.Slice)
				if isPtr || isSlice {
					if !fe.ParamWrites[pi] {
						fe.ParamWrites[pi] = true
						changed = true
					}
					fe.WriteSites[pi] = append(fe.WriteSites[pi], where)
				}
			}
			return changed
		case *ast.ParenExpr:
			x = y.X
		case *ast.StarExpr:
			t := info.Types[y.X].Type
			if t != nil && e.smt.isHeapPtr(t) {
				st := t.Underlying().(*types.Pointer).Elem().Underlying().(*types.Struct)
				for i := 0; i < st.NumFields(); i++ {
					k := e.keyOf(t.Underlying().(*types.Pointer).Elem(), st.Field(i))
					if !fe.Writes[k] {
						fe.Writes[k] = true
						changed = true
					}
				}
				return changed
			}
			through = true
			x = y.X
		case *ast.IndexExpr:
			t := info.Types[y.X].Type
			if t != nil {
				if _, ok := t.Underlying().(*types.Slice); ok {
					through = true
				}
			}
			x = y.X
		case *ast.SliceExpr:
			through = true
			x = y.X
		case *ast.SelectorExpr:
			sel := info.Selections[y]
			if sel == nil || sel.Kind() != types.FieldVal {
				return changed
			}
			// walk the implicit path; find the last heap pointer hop
			t := info.Types[y.X].Type
			var lastKey string
			for _, idx := range sel.Index() {
				var stt *types.Struct
				var owner types.Type
				isHeap := false
				if p, ok := t.Underlying().(*types.Pointer); ok {
					owner = p.Elem()
					isHeap = e.smt.isHeapPtr(t)
					stt, _ = p.Elem().Underlying().(*types.Struct)
				} else {
					owner = t
					stt, _ = t.Underlying().(*types.Struct)
				}
				if stt == nil {
					return changed
				}
				f := stt.Field(idx)
				if isHeap {
					lastKey = e.keyOf(owner, f)
				}
				t = f.Type()
			}
			if lastKey != "" {
				if !fe.Writes[lastKey] {
					fe.Writes[lastKey] = true
					changed = true
				}
				return changed
			}
			// pure value path: the write lands in whatever holds y.X
			if bt := info.Types[y.X].Type; bt != nil {
				if _, isPtr := bt.Underlying().(*types.Pointer); isPtr {
					through = true
				}
			}
			x = y.X
		default:
			return changed
		}
	}
}

func (e *Effects) keyOf(owner types.Type, f *types.Var) string {
	n, ok := types.Unalias(owner).(*types.Named)
	if !ok {
		return "?." + f.Name()
	}
	key := n.Origin().Obj().Name() + "." + f.Name()
	if _, ok := e.heapSorts[key]; !ok {
		e.heapSorts[key] = "(Array Int " + e.smt.sortOf(f.Type()) + ")"
	}
	return key
}

// callbackWrites: a call through a function value may write the objects its heap-pointer
// arguments refer to (e.g. InflateOption closures mutate *inflateConfig).
func (e *Effects) callbackWrites(fe *FuncEffects, call *ast.CallExpr) {
	info := e.prog.Info
	for _, a := range call.Args {
		tv, ok := info.Types[a]
		if !ok || tv.Type == nil || !e.smt.isHeapPtr(tv.Type) {
			continue
		}
		pt := tv.Type.Underlying().(*types.Pointer)
		st, ok := pt.Elem().Underlying().(*types.Struct)
		if !ok {
			continue
		}
		for i := 0; i < st.NumFields(); i++ {
			fe.Writes[e.keyOf(pt.Elem(), st.Field(i))] = true
		}
	}
}

func (e *Effects) recordCall(fe *FuncEffects, call *ast.CallExpr) {
	info := e.prog.Info
	if tv, ok := info.Types[call.Fun]; ok && tv.IsType() {
		return
	}
	var id *ast.Ident
	var recvExpr ast.Expr
	switch f := ast.Unparen(call.Fun).(type) {
	case *ast.Ident:
		id = f
	case *ast.SelectorExpr:
		id = f.Sel
		if sel := info.Selections[f]; sel != nil {
			recvExpr = f.X
		}
	case *ast.IndexExpr:
		if i2, ok := f.X.(*ast.Ident); ok {
			id = i2
		}
	}
	if id == nil {
		fe.CallsFuncValue = true
		e.callbackWrites(fe, call)
		return
	}
	switch o := info.Uses[id].(type) {
	case *types.Builtin:
		switch o.Name() {
		case "copy":
			e.recordWrite(fe, call.Args[0], true, e.pos(call))
		case "append":
			// append(p[:k], ...) or append(p, ...) may write p's backing array when capacity allows
			if len(call.Args) > 0 {
				a := ast.Unparen(call.Args[0])
				if se, ok := a.(*ast.SliceExpr); ok {
					e.recordWrite(fe, se.X, true, "append onto a prefix at "+e.pos(call))
				}
			}
		case "new":
			fe.Allocates = true
		}
	case *types.Func:
		if o.Pkg() != nil && o.Pkg() != e.prog.Pkg {
			full := o.Pkg().Name() + "." + o.Name()
			switch full {
			case "sort.Slice", "sort.SliceStable", "slices.SortFunc", "slices.Sort", "sort.Sort":
				if len(call.Args) > 0 {
					e.recordWrite(fe, call.Args[0], true, e.pos(call))
				}
			}
			return
		}
		key, ok := e.prog.FuncObj[o.Origin()]
		if !ok || len(key) > 5 && key[:5] == "spec:" {
			return
		}
		fe.Calls[key] = true
		args := []ast.Expr{recvExpr}
		args = append(args, call.Args...)
		fe.sites = append(fe.sites, callSite{callee: key, args: args, call: call})
	case *types.Var:
		fe.CallsFuncValue = true
		e.callbackWrites(fe, call)
	}
}

// loopMods: what may change while the given nodes execute
func (e *Effects) loopMods(fv *FnV, nodes []ast.Node) *modSet {
	info := e.prog.Info
	ms := &modSet{vars: map[types.Object]bool{}, heap: map[string]bool{}}
	tmp := &FuncEffects{Writes: map[string]bool{}, ParamWrites: map[int]bool{}, Globals: map[string]bool{}, Calls: map[string]bool{}, paramObjs: map[types.Object]int{},
		WriteSites: map[int][]string{}, GlobalSites: map[string][]string{}}
	markVar := func(x ast.Expr) {
		// &v handed to a callee that writes through it: v itself is written
		if u, ok := ast.Unparen(x).(*ast.UnaryExpr); ok && u.Op == token.AND {
			x = u.X
		}
		// a write that goes through a heap pointer changes the heap, not the root variable
		for y := ast.Unparen(x); ; {
			var inner ast.Expr
			switch z := y.(type) {
			case *ast.SelectorExpr:
				inner = z.X
			case *ast.IndexExpr:
				inner = z.X
			case *ast.StarExpr:
				inner = z.X
			case *ast.SliceExpr:
				inner = z.X
			case *ast.ParenExpr:
				inner = z.X
			}
			if inner == nil {
				break
			}
			if tv, ok := info.Types[inner]; ok && tv.Type != nil && e.smt.isHeapPtr(tv.Type) {
				return
			}
			y = ast.Unparen(inner)
		}
		if id := rootIdent(x); id != nil {
			obj := info.Uses[id]
			if obj == nil {
				obj = info.Defs[id]
			}
			if v, ok := obj.(*types.Var); ok && v.Parent() != e.prog.Pkg.Scope() {
				ms.vars[v] = true
			}
		}
	}
	for _, nd := range nodes {
		ast.Inspect(nd, func(n ast.Node) bool {
			switch x := n.(type) {
			case *ast.AssignStmt:
				for _, l := range x.Lhs {
					markVar(l)
					e.recordWrite(tmp, l, false, "")
				}
			case *ast.IncDecStmt:
				markVar(x.X)
				e.recordWrite(tmp, x.X, false, "")
			case *ast.RangeStmt:
				if x.Key != nil {
					markVar(x.Key)
				}
				if x.Value != nil {
					markVar(x.Value)
				}
			case *ast.UnaryExpr:
				if x.Op == token.AND {
					if _, ok := ast.Unparen(x.X).(*ast.CompositeLit); ok {
						ms.heap["$alloc"] = true
						if tv, ok := info.Types[x.X]; ok && e.smt.isHeapStruct(tv.Type) {
							st := tv.Type.Underlying().(*types.Struct)
							for i := 0; i < st.NumFields(); i++ {
								ms.heap[e.keyOf(tv.Type, st.Field(i))] = true
							}
						}
					}
				}
			case *ast.CallExpr:
				tmp.sites = tmp.sites[:0]
				e.recordCall(tmp, x)
				for _, cs := range tmp.sites {
					ce := e.F[cs.callee]
					if ce == nil {
						continue
					}
					for w := range ce.Writes {
						ms.heap[w] = true
					}
					if ce.Allocates {
						ms.heap["$alloc"] = true
					}
					for pi := range ce.ParamWrites {
						idx := pi + 1
						if idx >= 0 && idx < len(cs.args) && cs.args[idx] != nil {
							markVar(cs.args[idx])
							e.recordWrite(tmp, cs.args[idx], true, "")
						}
					}
				}
				// builtin copy / sort on locals
				if id, ok := x.Fun.(*ast.Ident); ok && id.Name == "copy" && len(x.Args) > 0 {
					markVar(x.Args[0])
				}
				if se, ok := x.Fun.(*ast.SelectorExpr); ok {
					if p, ok := se.X.(*ast.Ident); ok && (p.Name == "sort" || p.Name == "slices") && len(x.Args) > 0 {
						markVar(x.Args[0])
					}
				}
			}
			return true
		})
	}
	for w := range tmp.Writes {
		ms.heap[w] = true
	}
	return ms
}

func (fe *FuncEffects) sortedWrites() []string {
	var ks []string
	for k := range fe.Writes {
		ks = append(ks, k)
	}
	sort.Strings(ks)
	return ks
}
