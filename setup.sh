#!/bin/sh
# builds /verif/bin/govc offline from /verif/govc
set -e
cd /verif/govc
export PATH=/opt/veriftools/go1.26.8/bin:$PATH GOTOOLCHAIN=local GOFLAGS=-mod=mod GOPROXY=off
mkdir -p /verif/bin /verif/out /verif/evidence
go build -o /verif/bin/govc .
