#!/bin/sh
# usage: ingest_round.sh <dir with Cxx.out/{A,B}> <prefix, e.g. s7>   -- confirms each delivered change in a scratch worktree
dir="$1"; pre="$2"
for o in "$dir"/C*.out; do
  p=$(basename "$o" .out)
  for v in A B C; do
    [ -f "$o/$v/patch.diff" ] || continue
    id="$pre-$p$(echo $v | tr ABC abc)"
    [ -d /verif/seeded/$id ] && continue
    [ -f "$o/$v/.rejected" ] && continue
    /verif/tools/confirm_mutant.sh "$id" "$o/$v" "$p" 2>&1 | tail -2
    [ -d /verif/seeded/$id ] || touch "$o/$v/.rejected"
  done
done
