#!/usr/bin/env python3
"""Must-fail self-test: (1) every repaired defect is re-introduced (its fix commit reverse-applied to the
working tree) and the property's quick check must report a VIOLATION; (2) every seeded change must be
caught (tools/score_mutants.py); (3) harmless edits must stay green.  Restores /repo after each step."""
import json, subprocess, sys, os
os.chdir('/verif')
os.environ['VERIF_EVIDENCE_DIR'] = '/verif/out/evidence_scratch'  # never overwrite the registered evidence with a mutant run
def sh(cmd, **kw): return subprocess.run(cmd, shell=True, capture_output=True, text=True, **kw)
kf = json.load(open('/verif/known_findings.json'))['findings']
fixed = {}
for f in kf:
    if f['status'] == 'fixed':
        fixed.setdefault(f['commit'], []).append(f)
bad = 0
if sh('git -C /repo status --porcelain').stdout.strip():
    print('repo not clean'); sys.exit(2)
# fix commits whose surrounding lines were changed by later repairs: the defect is re-introduced by hand
custom_revert = {
    '9d35f53': "python3 -c \"p='/repo/clipper_base.go'; s=open(p).read(); k='func (c *clipperBase) executeInternal(ct ClipType, fillRule FillRule) {\\n\\tc.succeeded = true\\n'; assert s.count(k)==1; open(p,'w').write(s.replace(k, k[:k.index('\\tc.succeeded')]))\"",
}
for commit, fs in fixed.items():
    r = sh(f'git -C /repo show {commit} -- . ":(exclude)contracts_verif.go" | git -C /repo apply -R')
    if r.returncode != 0 and commit in custom_revert:
        r = sh(custom_revert[commit])
    if r.returncode != 0:  # later repairs changed the context lines: retry with one line of context
        r = sh(f'git -C /repo show {commit} -- . ":(exclude)contracts_verif.go" | git -C /repo apply -R -C1')
    if r.returncode != 0:
        print('cannot revert', commit, r.stderr[:200]); bad += 1; continue
    for prop in sorted({f['property'] for f in fs}):
        out = sh(f'/verif/check {prop} quick').stdout
        nv = out.count('\nVIOLATION') + (1 if out.startswith('VIOLATION') else 0)
        first = [l for l in out.split('\n') if l.startswith('FAILED')][:1]
        status = 'caught' if nv > 0 else 'MISSED'
        if nv == 0: bad += 1
        print(f'revert {commit} ({fs[0]["id"]}) -> {prop}: {status} {first[0][:110] if first else ""}')
    sh('git -C /repo checkout -- .')
# harmless edits: must stay green
harmless = [
  ("rename a local not named in any contract", "sed -i 's/\\bsolOpen\\b/openSol/g' /repo/clipper64.go", ["C12", "C19"]),
  ("reorder two independent statements", "python3 - <<'PY'\nimport re\np='/repo/clipper_base.go'; s=open(p).read()\ns=s.replace('\\tc.currentBotY = 0\\n\\tc.currentLocMin = 0\\n','\\tc.currentLocMin = 0\\n\\tc.currentBotY = 0\\n')\nopen(p,'w').write(s)\nPY", ["C12"]),
  ("add comments and blank lines (line numbers shift)", "sed -i '1a // harmless comment\\n// another one\\n' /repo/internal_clipper.go /repo/clipper.go", ["C14", "C15"]),
]
for name, cmd, props in harmless:
    sh(cmd)
    for prop in props:
        out = sh(f'/verif/check {prop} quick').stdout
        nv = out.count('VIOLATION')
        print(f'harmless [{name}] -> {prop}: {"green" if nv == 0 else "FALSE ALARM"}')
        if nv: bad += 1
    sh('git -C /repo checkout -- .')
print('selftest problems:', bad)
sys.exit(1 if bad else 0)
