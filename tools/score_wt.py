#!/usr/bin/env python3
"""Scores seeded changes without touching /repo: each patch is applied in a scratch worktree of /repo's HEAD
(with /repo's *current* contracts_verif.go copied in), the quick check of its property is run there
(VERIF_REPO / VERIF_OUT / VERIF_EVIDENCE_DIR point away from the registered tree), the result is written to
seeded/<id>/meta.json, and the worktree is removed.  usage: score_wt.py [-j N] [ids...]"""
import json, os, subprocess, sys, re, glob, shutil, tempfile
from concurrent.futures import ThreadPoolExecutor
os.chdir('/verif')
args = sys.argv[1:]
jobs = 3
if args and args[0] == '-j':
    jobs = int(args[1]); args = args[2:]
only = args

def score(d):
    sid = os.path.basename(d)
    meta_p = d + '/meta.json'
    meta = json.load(open(meta_p)) if os.path.exists(meta_p) else {}
    prop = meta.get('property') or re.search(r'C\d\d', sid).group(0)
    meta['property'] = prop
    notes = open(d + '/notes.md').read() if os.path.exists(d + '/notes.md') else ''
    meta.setdefault('needs_to_manifest', notes.strip().split('\n\n')[0][:600] if notes else '')
    meta.setdefault('confirmed', 'tools/confirm_mutant.sh: existing suite green with the change; demo_test.go fails with the change and passes without it (scratch worktree)')
    wt = tempfile.mkdtemp(prefix='score_' + sid + '_', dir='/tmp')
    os.rmdir(wt)
    out_root = wt + '.out'
    try:
        subprocess.run(['git', '-C', '/repo', 'worktree', 'add', '-q', '--detach', wt, 'HEAD'], check=True)
        shutil.copy('/repo/contracts_verif.go', wt + '/contracts_verif.go')
        r = subprocess.run(['git', '-C', wt, 'apply', d + '/patch.diff'], capture_output=True, text=True)
        if r.returncode != 0:
            meta['applies'] = False
            json.dump(meta, open(meta_p, 'w'), indent=1)
            return sid + ' patch does not apply: ' + r.stderr[:200]
        meta['applies'] = True
        res = {}
        env = dict(os.environ, VERIF_REPO=wt, VERIF_OUT=out_root, VERIF_EVIDENCE_DIR=out_root + '/evidence')
        for p in [prop] + meta.get('also_check', []):
            out = subprocess.run(['/verif/check', p, 'quick'], capture_output=True, text=True, env=env).stdout
            fails = [l[7:].strip()[:160] for l in out.split('\n') if l.startswith('FAILED')]
            nv = sum(1 for l in out.split('\n') if l.startswith('VIOLATION'))
            res[p] = {'violations': nv, 'failed_obligations': fails[:6]}
        meta['detected'] = any(v['violations'] > 0 for v in res.values())
        meta['check_results'] = res
        json.dump(meta, open(meta_p, 'w'), indent=1)
        return '%s %s %s %s' % (sid, 'DETECTED' if meta['detected'] else 'missed', {k: v['violations'] for k, v in res.items()}, (res[prop]['failed_obligations'] or [''])[0][:110])
    finally:
        subprocess.run(['git', '-C', '/repo', 'worktree', 'remove', '--force', wt], capture_output=True)
        shutil.rmtree(out_root, ignore_errors=True)
        shutil.rmtree(wt, ignore_errors=True)

dirs = [d for d in sorted(glob.glob('/verif/seeded/*')) if os.path.isdir(d) and (not only or os.path.basename(d) in only)]
with ThreadPoolExecutor(jobs) as ex:
    for line in ex.map(score, dirs):
        print(line, flush=True)
