#!/usr/bin/env python3
"""Applies every seeded change to /repo in turn, runs the quick check of its property (plus any extra
properties given in meta), records which obligations caught it in seeded/<id>/meta.json, reverts."""
import json, os, subprocess, sys, re, glob
os.chdir('/verif')
os.environ['VERIF_EVIDENCE_DIR'] = '/verif/out/evidence_scratch'  # never overwrite the registered evidence with a mutant run
only = sys.argv[1:]
for d in sorted(glob.glob('/verif/seeded/*')):
    sid = os.path.basename(d)
    if only and sid not in only: continue
    meta_p = d + '/meta.json'
    meta = json.load(open(meta_p)) if os.path.exists(meta_p) else {}
    prop = meta.get('property') or re.search(r'C\d\d', sid).group(0)
    meta['property'] = prop
    notes = open(d + '/notes.md').read() if os.path.exists(d + '/notes.md') else ''
    meta.setdefault('needs_to_manifest', notes.strip().split('\n\n')[0][:600] if notes else '')
    meta.setdefault('confirmed', 'tools/confirm_mutant.sh: existing suite green with the change; demo_test.go fails with the change and passes without it (scratch worktree)')
    subprocess.run(['git', '-C', '/repo', 'diff', '--quiet'], check=False)
    r = subprocess.run(['git', '-C', '/repo', 'apply', d + '/patch.diff'])
    if r.returncode != 0:
        meta['applies'] = False
        json.dump(meta, open(meta_p, 'w'), indent=1); print(sid, 'patch does not apply'); continue
    meta['applies'] = True
    res = {}
    for p in [prop] + meta.get('also_check', []):
        out = subprocess.run(['/verif/check', p, 'quick'], capture_output=True, text=True).stdout
        fails = [l[7:].strip()[:160] for l in out.split('\n') if l.startswith('FAILED')]
        nv = sum(1 for l in out.split('\n') if l.startswith('VIOLATION'))
        res[p] = {'violations': nv, 'failed_obligations': fails[:6]}
    subprocess.run(['git', '-C', '/repo', 'checkout', '--', '.'])
    meta['detected'] = any(v['violations'] > 0 for v in res.values())
    meta['check_results'] = res
    json.dump(meta, open(meta_p, 'w'), indent=1)
    print(sid, 'DETECTED' if meta['detected'] else 'missed', {k: v['violations'] for k, v in res.items()}, (res[prop]['failed_obligations'] or [''])[0][:90])
