#!/usr/bin/env python3
"""Writes seeded/TABLE.md from the meta.json files: one row per seeded change (id, property, changed function,
whether the quick check of its property reports a violation, and the first failed obligation - a proof obligation or
frame obligation if there is one, otherwise the bounded stand-in that caught it)."""
import json, glob, os, re
rows = []; n = det = proof = frame = bounded = 0
for d in sorted(glob.glob('/verif/seeded/*/')):
    sid = os.path.basename(d.rstrip('/'))
    mp = d + 'meta.json'
    if not os.path.exists(mp): continue
    m = json.load(open(mp))
    patch = open(d + 'patch.diff').read() if os.path.exists(d + 'patch.diff') else ''
    funcs = sorted(set(re.findall(r'^@@.*?func (?:\([^)]*\) )?(\w+)', patch, re.M)))
    files = sorted(set(re.findall(r'^\+\+\+ b/(\S+)', patch, re.M)))
    prop = m.get('property', '')
    fos = []
    for p, r in m.get('check_results', {}).items():
        fos += r.get('failed_obligations') or []
    pick = None
    for fo in fos:
        if not fo.startswith('bounded') and not fo.startswith('frame'):
            pick = fo; break
    if pick is None:
        for fo in fos:
            if fo.startswith('frame'): pick = fo; break
    if pick is None and fos: pick = fos[0]
    kind = ''
    if pick:
        kind = 'bounded stand-in' if pick.startswith('bounded') else ('frame analysis' if pick.startswith('frame') else 'proof obligation')
        pick = re.sub(r'\s*\((sat|unknown|timeout|detached|outside-subset)[^)]*\).*', '', pick)
        if kind != 'proof obligation': pick = pick.split(': ')[0]
    n += 1
    if m.get('detected'):
        det += 1
        if kind == 'proof obligation': proof += 1
        elif kind == 'frame analysis': frame += 1
        else: bounded += 1
    rows.append('| %s | %s | %s (%s) | %s | %s | %s |' % (sid, prop, ', '.join(funcs) or '?', ', '.join(files), 'yes' if m.get('detected') else 'NO', kind, (pick or '')[:120]))
with open('/verif/seeded/TABLE.md', 'w') as f:
    f.write('# Seeded changes and what catches them\n\n%d confirmed changes; %d reported by the quick check of their property: %d by a proof obligation, %d by the frame/effect analysis, %d only by a bounded stand-in.\n\n' % (n, det, proof, frame, bounded))
    f.write('| id | property | function(s) changed | caught | by | first failed obligation |\n|----|----------|---------------------|--------|----|-------------------------|\n')
    f.write('\n'.join(rows) + '\n')
print(n, det, proof, frame, bounded)
