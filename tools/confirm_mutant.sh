#!/bin/sh
# usage: confirm_mutant.sh <id> <dir with patch.diff demo_test.go notes.md> <property>
# Confirms in a scratch worktree: suite green with change, demo fails with change, demo passes without.
id="$1"; src="$2"; prop="$3"
wt=/tmp/confirm_$id
cd /repo && git worktree add -q --detach $wt HEAD || exit 2
cd $wt
export GOFLAGS=-mod=mod GOPROXY=off
cp "$src/demo_test.go" zz_demo_test.go
demo_without=$(go test -vet=off -count=1 ./... 2>&1 | tail -1 | cut -c1-60)
git apply "$src/patch.diff" || { echo "patch failed"; cd /repo; git worktree remove --force $wt; exit 2; }
demo_with=$(go test -vet=off -count=1 ./... 2>&1 | grep -c "^--- FAIL\|^FAIL\|panic:")
rm zz_demo_test.go
suite_with=$(go test -vet=off -count=1 ./... 2>&1 | tail -1 | cut -c1-60)
cd /repo && git worktree remove --force $wt
echo "$id: suite+demo without change: [$demo_without]  demo failures with change: $demo_with  suite with change: [$suite_with]"
case "$demo_without" in ok*) a=1;; *) a=0;; esac
case "$suite_with" in ok*) b=1;; *) b=0;; esac
if [ $a = 1 ] && [ $b = 1 ] && [ "$demo_with" -gt 0 ]; then
  mkdir -p /verif/seeded/$id
  cp "$src/patch.diff" "$src/demo_test.go" /verif/seeded/$id/
  [ -f "$src/notes.md" ] && cp "$src/notes.md" /verif/seeded/$id/notes.md
  echo "CONFIRMED $id"
else
  echo "NOT CONFIRMED $id"
fi
