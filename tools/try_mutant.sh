#!/bin/sh
# usage: try_mutant.sh <patch.diff> <prop> [<prop> ...]
# applies the patch to /repo, runs the quick checks, reverts. Prints one line per property.
patch="$1"; shift
cd /repo || exit 2
if ! git diff --quiet -- . ':(exclude)contracts_verif.go'; then echo "repo has uncommitted source changes"; exit 2; fi
git apply "$patch" || { echo "patch does not apply"; exit 2; }
for p in "$@"; do
  out=$(/verif/check $p quick 2>&1)
  rc=$?
  nviol=$(echo "$out" | grep -c "^VIOLATION")
  first=$(echo "$out" | grep "^FAILED" | head -2 | cut -c1-150 | tr '\n' '|')
  echo "$p exit=$rc violations=$nviol $first"
done
git checkout -- . 
git status --short | grep -v contracts_verif | head -3
