#!/bin/sh
# usage: mut.sh <file> <perl-substitution> <contract key>...   -- sanity check of a contract: applies one textual
# change to a scratch worktree of /repo (with /repo's current contracts) and verifies the named functions there
f="$1"; sub="$2"; shift 2
wt=$(mktemp -d /tmp/mut_XXXXXX); rmdir $wt
git -C /repo worktree add -q --detach $wt HEAD || exit 2
cp /repo/contracts_verif.go $wt/
perl -0pi -e "$sub" $wt/$f
if git -C $wt diff --quiet -- $f; then echo "substitution changed nothing"; else
  (cd $wt && GOFLAGS=-mod=mod GOPROXY=off go build ./... 2>&1 | head -3)
  for k in "$@"; do VERIF_OUT=$wt.out /verif/bin/govc verify -repo $wt -func "$k" 2>&1 | grep 'FAIL\|discharged' | cut -c1-170; done
fi
git -C /repo worktree remove --force $wt; rm -rf $wt.out
